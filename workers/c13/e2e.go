package main

// Phase "e2e": the frame validation clauses on real connections, through the
// engine's own read loops. The in-memory phase drives Conn.Parse directly and
// closes the connection itself when Parse reports an error, as the poller's
// data handler does; whether every read loop of the engine (blocking with
// parser, blocking over TLS, the net/http paths with their own read loop,
// connections transferred to the poller, plain and TLS) really fails the
// connection is only visible end to end.
//
// One case = one server on one upgrade path x epoll mode x plain/TLS x direct /
// queued writes, and one raw client connection per scenario:
//
//	valid "before" text message (must be echoed: the path works)
//	scenario frames
//	"after" text message
//
// For a violation scenario (a fixed list of sequences the in-memory phase
// decides as "must fail", each well inside the asserted classes) the message
// containing the offending frame must never be delivered (a delivered "after"
// message is only counted), and the server must end the connection (the client sees a close
// frame and/or EOF / reset) - decided when the client's reader ended, or in the
// final history (no progress, idle) if it never does. For the control
// scenarios a ping must be answered by a pong with the same payload and a
// close frame by a close frame.

import (
	"bufio"
	"bytes"
	"fmt"
	"io"
	"net"
	"net/http"
	"strings"
	"sync"
	"sync/atomic"
	"time"

	"github.com/lesismal/nbio/nbhttp"
	"github.com/lesismal/nbio/nbhttp/websocket"

	"verif/internal/e2e"
	"verif/internal/h"
	"verif/internal/httpx"
	"verif/internal/wsref"
)

type e2eCase struct {
	Index  int    `json:"index"`
	Path   string `json:"path"` // poller | blocking-parser | std-readloop | transfer-blocking | transfer-std | mixed
	Mode   string `json:"mode"`
	TLS    bool   `json:"tls"`
	Queued bool   `json:"queued"`
	Cut    string `json:"cut"` // whole | bytewise | frame (how the client writes the scenario)
}

var e2ePaths = []string{"poller", "blocking-parser", "std-readloop", "transfer-blocking", "transfer-std", "mixed"}

func genE2E(r *h.Run, idx int) e2eCase {
	rng := r.Rand("c13-e2e", idx)
	c := e2eCase{Index: idx}
	c.Path = e2ePaths[idx%len(e2ePaths)]
	c.Mode = []string{"LT", "ET", "ONESHOT"}[(idx/len(e2ePaths))%3]
	switch c.Path {
	case "poller", "blocking-parser", "transfer-blocking", "mixed":
		c.TLS = (idx/(len(e2ePaths)*3))%2 == 1
	}
	c.Queued = rng.Intn(2) == 0
	c.Cut = []string{"whole", "bytewise", "frame"}[rng.Intn(3)]
	return c
}

type e2eScenario struct {
	Name   string
	Frames []wsref.Frame
	// Kind: violation | ping | close
	Kind string
	// Offending is the text the message containing the offending frame would
	// be delivered as ("" when the offending frame is not a data frame)
	Offending string
}

func txt(s string, fin bool, op byte) wsref.Frame {
	return wsref.Frame{Fin: fin, Opcode: op, Masked: true, Key: [4]byte{1, 2, 3, 4}, Payload: []byte(s)}
}

func e2eScenarios() []e2eScenario {
	big := strings.Repeat("p", 126)
	rsv2 := txt("offending-rsv2", true, wsref.OpText)
	rsv2.Rsv2 = true
	rsv3 := txt("offending-rsv3", true, wsref.OpBinary)
	rsv3.Rsv3 = true
	top := txt("offending-topbit", true, wsref.OpBinary)
	top.LenBits, top.DeclLen, top.DeclOverride = 64, 1<<63|16, true
	return []e2eScenario{
		{Name: "rsv2", Kind: "violation", Frames: []wsref.Frame{rsv2}, Offending: "offending-rsv2"},
		{Name: "rsv3", Kind: "violation", Frames: []wsref.Frame{rsv3}, Offending: "offending-rsv3"},
		{Name: "reserved-opcode-3", Kind: "violation", Frames: []wsref.Frame{txt("offending-op3", true, 3)}, Offending: "offending-op3"},
		{Name: "reserved-opcode-11", Kind: "violation", Frames: []wsref.Frame{txt("x", true, 0xB)}},
		{Name: "fragmented-ping", Kind: "violation", Frames: []wsref.Frame{txt("pi", false, wsref.OpPing), txt("ng", true, wsref.OpCont)}},
		{Name: "ping-126", Kind: "violation", Frames: []wsref.Frame{txt(big, true, wsref.OpPing)}},
		{Name: "continuation-without-start", Kind: "violation", Frames: []wsref.Frame{txt("offending-cont", true, wsref.OpCont)}, Offending: "offending-cont"},
		{Name: "text-inside-fragmented", Kind: "violation", Frames: []wsref.Frame{txt("offending-", false, wsref.OpText), txt("inner", true, wsref.OpText), txt("tail", true, wsref.OpCont)}, Offending: "offending-tail"},
		{Name: "invalid-utf8", Kind: "violation", Frames: []wsref.Frame{txt("offending-\xc3\x28", true, wsref.OpText)}, Offending: "offending-\xc3\x28"},
		{Name: "close-code-1005", Kind: "violation", Frames: []wsref.Frame{{Fin: true, Opcode: wsref.OpClose, Masked: true, Key: [4]byte{9, 9, 9, 9}, Payload: wsref.ClosePayload(1005, "")}}},
		{Name: "close-reason-invalid-utf8", Kind: "violation", Frames: []wsref.Frame{{Fin: true, Opcode: wsref.OpClose, Masked: true, Key: [4]byte{9, 9, 9, 9}, Payload: append(wsref.ClosePayload(1000, ""), 0xc3, 0x28)}}},
		{Name: "length-top-bit", Kind: "violation", Frames: []wsref.Frame{top}},
		{Name: "ping", Kind: "ping", Frames: []wsref.Frame{txt("ping-payload-123", true, wsref.OpPing)}},
		{Name: "close", Kind: "close", Frames: []wsref.Frame{{Fin: true, Opcode: wsref.OpClose, Masked: true, Key: [4]byte{7, 7, 7, 7}, Payload: wsref.ClosePayload(1000, "bye")}}},
	}
}

type e2eServer struct {
	addr string
	stop func()
	mu   sync.Mutex
	got  map[string][]string // remote addr -> delivered text payloads
	cell httpx.Cell
}

func (s *e2eServer) delivered(remote string) []string {
	s.mu.Lock()
	defer s.mu.Unlock()
	return append([]string(nil), s.got[remote]...)
}

var e2eProgress int64

func startE2EServer(c e2eCase) (*e2eServer, error) {
	s := &e2eServer{got: map[string][]string{}}
	up := websocket.NewUpgrader()
	up.BlockingModAsyncWrite = c.Queued
	up.CheckOrigin = func(r *http.Request) bool { return true }
	up.OnMessage(func(wc *websocket.Conn, mt websocket.MessageType, b []byte) {
		atomic.AddInt64(&e2eProgress, 1)
		key := wc.RemoteAddr().String()
		s.mu.Lock()
		s.got[key] = append(s.got[key], string(b))
		s.mu.Unlock()
		_ = wc.WriteMessage(mt, b) // echo
	})
	upgrade := func(w http.ResponseWriter, r *http.Request) {
		switch c.Path {
		case "transfer-blocking", "transfer-std":
			_, _ = up.UpgradeAndTransferConnToPoller(w, r, nil)
		default:
			_, _ = up.Upgrade(w, r, nil)
		}
	}
	mux := http.NewServeMux()
	mux.HandleFunc("/ws", upgrade)
	var once sync.Once
	switch c.Path {
	case "poller", "blocking-parser", "transfer-blocking", "mixed":
		iomod := map[string]int{"poller": nbhttp.IOModNonBlocking, "blocking-parser": nbhttp.IOModBlocking, "transfer-blocking": nbhttp.IOModBlocking, "mixed": nbhttp.IOModMixed}[c.Path]
		cell := httpx.Cell{IOMod: iomod, TLS: c.TLS, Mode: c.Mode}
		s.cell = cell
		eng := nbhttp.NewEngine(cell.Config(mux))
		up.Engine = eng
		if err := eng.Start(); err != nil {
			return nil, err
		}
		s.addr = httpx.Addr(eng, cell)
		s.stop = func() { once.Do(eng.Stop) }
	default:
		cell := httpx.Cell{IOMod: nbhttp.IOModNonBlocking, Mode: c.Mode}
		s.cell = cell
		conf := cell.Config(mux)
		conf.Addrs = nil
		conf.AddrsTLS = nil
		eng := nbhttp.NewEngine(conf)
		up.Engine = eng
		if err := eng.Start(); err != nil {
			return nil, err
		}
		ln, err := net.Listen("tcp", "127.0.0.1:0")
		if err != nil {
			eng.Stop()
			return nil, err
		}
		srv := &http.Server{Handler: mux}
		go func() { _ = srv.Serve(ln) }()
		s.addr = ln.Addr().String()
		s.stop = func() {
			once.Do(func() {
				_ = srv.Close()
				eng.Stop()
			})
		}
	}
	return s, nil
}

func e2eDial(s *e2eServer, c e2eCase) (net.Conn, error) {
	if c.TLS && s.cell.TLS {
		return s.cell.Dial(s.addr)
	}
	return net.DialTimeout("tcp", s.addr, 5*time.Second)
}

func runE2E(r *h.Run, c e2eCase) {
	srv, err := startE2EServer(c)
	if err != nil {
		r.Inconclusive(fmt.Sprintf("e2e case %d: server start: %v", c.Index, err))
		return
	}
	defer srv.stop()
	cell := fmt.Sprintf("%s/%s/tls=%v/queued=%v", c.Path, c.Mode, c.TLS && srv.cell.TLS, c.Queued)
	cls := c.Path
	if c.Path == "transfer-blocking" || c.Path == "transfer-std" {
		cls = "transferred"
	}
	if c.TLS && srv.cell.TLS {
		cls += "-tls"
	}
	if c.Path == "mixed" && (c.Index/len(e2ePaths))%2 == 0 {
		// the first two online connections of the mixed engine are served blocking: with two idle
		// fillers the scenario connections go to the poller, without them to the blocking reader
		for k := 0; k < 2; k++ {
			if fc, err := e2eDial(srv, c); err == nil {
				defer fc.Close()
			}
		}
		time.Sleep(20 * time.Millisecond)
		cell += "/poller-part"
	}
	for _, sc := range e2eScenarios() {
		r.Eval(1)
		nc, err := e2eDial(srv, c)
		if err != nil {
			r.Inconclusive(fmt.Sprintf("e2e case %d (%s): dial: %v", c.Index, cell, err))
			return
		}
		local := nc.LocalAddr().String()
		br := bufio.NewReader(nc)
		_ = nc.SetDeadline(time.Now().Add(10 * time.Second))
		_, _ = fmt.Fprintf(nc, "GET /ws HTTP/1.1\r\nHost: x\r\nUpgrade: websocket\r\nConnection: Upgrade\r\nSec-WebSocket-Key: dGhlIHNhbXBsZSBub25jZQ==\r\nSec-WebSocket-Version: 13\r\n\r\n")
		resp, err := http.ReadResponse(br, nil)
		if err != nil || resp.StatusCode != 101 {
			nc.Close()
			r.Inconclusive(fmt.Sprintf("e2e case %d (%s): handshake failed: %v", c.Index, cell, err))
			return
		}
		_ = nc.SetDeadline(time.Time{})

		// reader: everything the server sends, until the connection ends
		type rd struct {
			frames []wsref.Frame
			err    error
		}
		var rmu sync.Mutex
		var got rd
		done := make(chan struct{})
		go func() {
			defer close(done)
			var buf []byte
			tmp := make([]byte, 4096)
			for {
				n, err := br.Read(tmp)
				if n > 0 {
					atomic.AddInt64(&e2eProgress, 1)
					buf = append(buf, tmp[:n]...)
					for {
						f, k, derr := wsref.Decode(buf)
						if derr != nil || k == 0 {
							break
						}
						f.Payload = append([]byte(nil), f.Payload...)
						rmu.Lock()
						got.frames = append(got.frames, f)
						rmu.Unlock()
						buf = buf[k:]
					}
				}
				if err != nil {
					rmu.Lock()
					got.err = err
					rmu.Unlock()
					return
				}
			}
		}()
		framesSeen := func() []wsref.Frame {
			rmu.Lock()
			defer rmu.Unlock()
			return append([]wsref.Frame(nil), got.frames...)
		}
		waitFrame := func(pred func(wsref.Frame) bool) bool {
			for i := 0; i < 1000; i++ {
				for _, f := range framesSeen() {
					if pred(f) {
						return true
					}
				}
				select {
				case <-done:
					for _, f := range framesSeen() {
						if pred(f) {
							return true
						}
					}
					return false
				case <-time.After(5 * time.Millisecond):
				}
			}
			return false
		}
		// the path works: "before" is echoed
		before := wsref.Encode([]wsref.Frame{txt("before", true, wsref.OpText)})
		if _, err := nc.Write(before); err != nil {
			nc.Close()
			<-done
			r.Inconclusive(fmt.Sprintf("e2e case %d (%s): write: %v", c.Index, cell, err))
			continue
		}
		if !waitFrame(func(f wsref.Frame) bool { return f.Opcode == wsref.OpText && string(f.Payload) == "before" }) {
			nc.Close()
			<-done
			r.Inconclusive(fmt.Sprintf("e2e case %d (%s) scenario %s: the valid message before the scenario was not echoed within 5 s", c.Index, cell, sc.Name))
			continue
		}
		// the scenario, then "after"
		var wire []byte
		var bounds []int
		for i := range sc.Frames {
			wire = wsref.AppendFrame(wire, &sc.Frames[i])
			bounds = append(bounds, len(wire))
		}
		after := txt("after", true, wsref.OpText)
		wire = wsref.AppendFrame(wire, &after)
		writeErr := error(nil)
		switch c.Cut {
		case "bytewise":
			for i := 0; i < len(wire) && writeErr == nil; i++ {
				_, writeErr = nc.Write(wire[i : i+1])
			}
		case "frame":
			p := 0
			for _, b := range append(bounds, len(wire)) {
				if writeErr == nil && b > p {
					_, writeErr = nc.Write(wire[p:b])
					time.Sleep(200 * time.Microsecond)
				}
				p = b
			}
		default:
			_, writeErr = nc.Write(wire)
		}
		_ = writeErr // the server may have failed the connection already

		viol := func(sig, detail string) {
			r.Violate(fmt.Sprintf("c13:e2e:%s:%s:%s", cls, sc.Name, sig), fmt.Sprintf("%s\nserver %s, scenario %s written %s: %s\nframes received from the server: %s", detail, cell, sc.Name, c.Cut, describeFrames(sc.Frames), describeFrames(framesSeen())), c)
		}
		switch sc.Kind {
		case "ping":
			ok := waitFrame(func(f wsref.Frame) bool {
				return f.Opcode == wsref.OpPong && bytes.Equal(f.Payload, sc.Frames[0].Payload)
			})
			okAfter := waitFrame(func(f wsref.Frame) bool { return f.Opcode == wsref.OpText && string(f.Payload) == "after" })
			if !ok {
				viol("no-pong-with-same-payload", "a ping was not answered by a pong carrying the same payload (waited 5 s, or until the connection ended)")
			} else if !okAfter {
				viol("message-after-ping-not-echoed", "the message following a ping was not echoed")
			} else {
				r.Nontrivial(fmt.Sprintf("e2e/%d/%s", c.Index, sc.Name))
			}
			nc.Close()
			<-done
			continue
		case "close":
			ok := waitFrame(func(f wsref.Frame) bool { return f.Opcode == wsref.OpClose })
			if !ok {
				viol("close-not-answered", "a close frame (1000 \"bye\") was not answered by a close frame before the connection ended (or within 5 s)")
			} else {
				r.Nontrivial(fmt.Sprintf("e2e/%d/%s", c.Index, sc.Name))
			}
			nc.Close()
			<-done
			continue
		}
		// violation: the connection must be ended by the server. Decided when the
		// reader ended, else in the final history (nothing moves any more).
		ended := false
		select {
		case <-done:
			ended = true
		case <-time.After(300 * time.Millisecond):
			switch e2e.WaitQuiet(done, func() int64 { return atomic.LoadInt64(&e2eProgress) }, 60*time.Second) {
			case "done":
				ended = true
			case "quiet":
			default:
				nc.Close()
				<-done
				r.Inconclusive(fmt.Sprintf("e2e case %d (%s) scenario %s: neither ended nor quiet within 60 s", c.Index, cell, sc.Name))
				continue
			}
		}
		dl := srv.delivered(local)
		for _, m := range dl {
			if m == "after" {
				// the statement does not say how fast the connection is failed: violations found by the
				// message handler (UTF-8, close codes) are found after later frames have been queued
				r.Count("e2e_message_after_offending_frame_delivered(observation)", 1)
			}
			if sc.Offending != "" && m == sc.Offending {
				viol("message-with-offending-frame-delivered", fmt.Sprintf("the message containing the offending frame was delivered to OnMessage (delivered: %q)", dl))
				ended = true
				break
			}
		}
		if !ended {
			viol("connection-not-failed", "the server did not end the connection after the offending frame: the client's reader is still blocked in the final history (no progress, idle CPU, 3 s)")
		} else {
			r.Nontrivial(fmt.Sprintf("e2e/%d/%s", c.Index, sc.Name))
		}
		nc.Close()
		<-done
	}
	r.Seen("e2e_cells", cell)
}

func describeFrames(fs []wsref.Frame) string {
	var sb strings.Builder
	for i, f := range fs {
		if i > 0 {
			sb.WriteString(" | ")
		}
		p := f.Payload
		if len(p) > 24 {
			p = p[:24]
		}
		fmt.Fprintf(&sb, "fin=%v rsv=%v%v%v op=%x len=%d %q", f.Fin, b2i(f.Rsv1), b2i(f.Rsv2), b2i(f.Rsv3), f.Opcode, len(f.Payload), p)
	}
	if len(fs) == 0 {
		return "(none)"
	}
	return sb.String()
}

func b2i(b bool) int {
	if b {
		return 1
	}
	return 0
}

var _ = io.EOF
