// C13 - WebSocket frame validation. The oracle is the sequence validator of
// internal/wsref (written from RFC 6455); nbio's Parse is driven in memory
// with an inline executor and everything it does is recorded: OnMessage calls,
// pong handler calls, frames written back (pongs, close frames), Parse errors,
// Close of the underlying connection, the OnClose error.
package main

import (
	"bytes"
	"encoding/hex"
	"errors"
	"fmt"
	"math/rand"
	"regexp"
	"strings"
	"time"

	"github.com/lesismal/nbio/nbhttp/websocket"

	"verif/internal/h"
	"verif/internal/wsref"
	"verif/internal/wsref/nbdrive"
)

// frameSpec is a literal frame. Payload bytes are given in hex, or - for big
// ones - by a generator so that replay files stay small.
type frameSpec struct {
	Fin    bool   `json:"fin"`
	Rsv    int    `json:"rsv,omitempty"` // 4 = RSV1, 2 = RSV2, 1 = RSV3
	Op     int    `json:"op"`
	Masked bool   `json:"masked,omitempty"`
	Key    string `json:"key,omitempty"`
	LenEnc int    `json:"len_enc,omitempty"` // 0 minimal, 16, 64
	TopBit bool   `json:"top_bit,omitempty"` // 64-bit length field with the most significant bit set
	P      string `json:"p,omitempty"`       // payload, hex
	// generator for long payloads: GenLen bytes of ASCII ('a'+i%26) or random
	// bytes (GenSeed != 0), optionally wrapped into stored DEFLATE blocks
	GenLen    int   `json:"gen_len,omitempty"`
	GenSeed   int64 `json:"gen_seed,omitempty"`
	GenStored bool  `json:"gen_stored,omitempty"`
}

func specOf(f wsref.Frame) frameSpec {
	s := frameSpec{Fin: f.Fin, Op: int(f.Opcode), Masked: f.Masked, LenEnc: f.LenBits}
	if f.Rsv1 {
		s.Rsv |= 4
	}
	if f.Rsv2 {
		s.Rsv |= 2
	}
	if f.Rsv3 {
		s.Rsv |= 1
	}
	if f.Masked {
		s.Key = hex.EncodeToString(f.Key[:])
	}
	if f.DeclOverride {
		s.TopBit = true
		s.LenEnc = 64
	}
	s.P = hex.EncodeToString(f.Payload)
	return s
}

func (s frameSpec) frame() wsref.Frame {
	f := wsref.Frame{Fin: s.Fin, Rsv1: s.Rsv&4 != 0, Rsv2: s.Rsv&2 != 0, Rsv3: s.Rsv&1 != 0, Opcode: byte(s.Op), Masked: s.Masked, LenBits: s.LenEnc}
	if s.Key != "" {
		k, _ := hex.DecodeString(s.Key)
		copy(f.Key[:], k)
	}
	if s.GenLen > 0 {
		p := make([]byte, s.GenLen)
		if s.GenSeed != 0 {
			rand.New(rand.NewSource(s.GenSeed)).Read(p)
		} else {
			for i := range p {
				p[i] = 'a' + byte(i%26)
			}
		}
		if s.GenStored {
			p = wsref.StoredDeflate(p)
		}
		f.Payload = p
	} else {
		f.Payload, _ = hex.DecodeString(s.P)
	}
	if s.TopBit {
		f.LenBits = 64
		f.DeclOverride = true
		f.DeclLen = 1<<63 | uint64(len(f.Payload))
	}
	return f
}

type caseT struct {
	Class  string         `json:"class"`
	Index  int            `json:"index"`
	Note   string         `json:"note,omitempty"`
	Cfg    nbdrive.Config `json:"cfg"`
	Frames []frameSpec    `json:"frames"`
	Seg    nbdrive.Seg    `json:"seg"`
	// informational
	WireHex string `json:"wire_hex,omitempty"`
	Cuts    []int  `json:"cuts,omitempty"`
}

var (
	run *h.Run
	lg  *h.CapLogger
	wd  *nbdrive.Watchdog
)

const sentinel = "SENTINEL-MESSAGE-AFTER-THE-SEQUENCE"

func sentinelFrame(masked bool) wsref.Frame {
	return wsref.Frame{Fin: true, Opcode: wsref.OpText, Masked: masked, Key: [4]byte{0x11, 0x22, 0x33, 0x44}, Payload: []byte(sentinel)}
}

func violate(sig, detail string, c caseT, wire []byte, cuts []int) {
	if len(wire) > 0 && len(wire) <= 2048 {
		c.WireHex = hex.EncodeToString(wire)
	}
	if len(cuts) > 0 && len(cuts) <= 64 {
		c.Cuts = cuts
	}
	run.Violate(sig, detail, c)
}

// ---------------------------------------------------------------- oracle

type obsEv struct {
	kind    string // message | pong-sent | pong-recv | close-sent | other-frame
	typ     int
	payload []byte
	hasCode bool
	code    int
}

func (o obsEv) String() string {
	switch o.kind {
	case "message":
		return fmt.Sprintf("OnMessage(type %d, %d bytes %q)", o.typ, len(o.payload), h.Hex(o.payload, 24))
	case "close-sent":
		if o.hasCode {
			return fmt.Sprintf("close frame written (code %d, reason %q)", o.code, h.Hex(o.payload, 40))
		}
		return "close frame written (no code)"
	}
	return fmt.Sprintf("%s(%d bytes %q)", o.kind, len(o.payload), h.Hex(o.payload, 24))
}

func observed(e *nbdrive.Endpoint) []obsEv {
	var out []obsEv
	for _, o := range e.Obs {
		switch o.Kind {
		case nbdrive.ObsMessage:
			out = append(out, obsEv{kind: "message", typ: o.Type, payload: o.Data})
		case nbdrive.ObsPongRecv:
			out = append(out, obsEv{kind: "pong-recv", payload: o.Data})
		case nbdrive.ObsFrameOut:
			f := o.Frame
			switch f.Opcode {
			case wsref.OpPong:
				out = append(out, obsEv{kind: "pong-sent", payload: f.Payload})
			case wsref.OpClose:
				ev := obsEv{kind: "close-sent"}
				if len(f.Payload) >= 2 {
					ev.hasCode = true
					ev.code = int(f.Payload[0])<<8 | int(f.Payload[1])
					ev.payload = f.Payload[2:]
				}
				out = append(out, ev)
			default:
				out = append(out, obsEv{kind: "other-frame", typ: int(f.Opcode), payload: f.Payload})
			}
		}
	}
	return out
}

func wantKind(e wsref.Event) string {
	switch e.Kind {
	case wsref.EvMessage:
		return "message"
	case wsref.EvPing:
		return "pong-sent"
	case wsref.EvPong:
		return "pong-recv"
	}
	return "close-sent"
}

func describe(e wsref.Event) string {
	switch e.Kind {
	case wsref.EvMessage:
		return fmt.Sprintf("message(type %d, %d bytes) from frames %d-%d", e.Type, len(e.Payload), e.First, e.Last)
	case wsref.EvPing:
		return fmt.Sprintf("pong for the ping in frame %d (%d bytes)", e.Last, len(e.Payload))
	case wsref.EvPong:
		return fmt.Sprintf("pong handler call for frame %d (%d bytes)", e.Last, len(e.Payload))
	}
	return fmt.Sprintf("close reply for the close in frame %d", e.Last)
}

// matches: does the observation satisfy the reference event (close codes are
// judged separately).
func matches(w wsref.Event, o obsEv) bool {
	if wantKind(w) != o.kind {
		return false
	}
	switch w.Kind {
	case wsref.EvMessage:
		return int(w.Type) == o.typ && bytes.Equal(w.Payload, o.payload)
	case wsref.EvPing, wsref.EvPong:
		return bytes.Equal(w.Payload, o.payload)
	}
	return true
}

func closeClassName(code int) string {
	switch {
	case code < 1000:
		return "below-1000"
	case code >= 1004 && code <= 1006, code == 1015:
		return fmt.Sprint(code)
	case code >= 1016 && code <= 2999:
		return "1016-2999"
	case code >= 5000:
		return "5000-and-above"
	}
	return "legal"
}

var reDigits = regexp.MustCompile(`[0-9]+`)
var reNonWord = regexp.MustCompile(`[^a-z]+`)

func slug(s string) string {
	s = strings.ToLower(s)
	s = reDigits.ReplaceAllString(s, "")
	s = strings.Trim(reNonWord.ReplaceAllString(s, "-"), "-")
	if len(s) > 70 {
		s = s[:70]
	}
	return s
}

func frameClass(f *wsref.Frame) string {
	var sb strings.Builder
	switch {
	case f.Opcode == wsref.OpCont:
		sb.WriteString("continuation")
	case f.Opcode == wsref.OpText:
		sb.WriteString("text")
	case f.Opcode == wsref.OpBinary:
		sb.WriteString("binary")
	case f.Opcode == wsref.OpClose:
		sb.WriteString("close")
	case f.Opcode == wsref.OpPing:
		sb.WriteString("ping")
	case f.Opcode == wsref.OpPong:
		sb.WriteString("pong")
	default:
		sb.WriteString("reserved-opcode")
	}
	if len(f.Payload) == 0 {
		sb.WriteString("-empty")
	} else {
		sb.WriteString("-nonempty")
	}
	return sb.String()
}

// judge compares what nbio did with the verdict. It returns true when the
// case held and was decisive.
func judge(c caseT, e *nbdrive.Endpoint, frames []wsref.Frame, v wsref.Verdict, wire []byte, cuts []int) bool {
	obs := observed(e)
	for _, o := range obs {
		switch o.kind {
		case "message":
			run.Count("messages_delivered", 1)
		case "pong-sent":
			run.Count("pongs_written", 1)
		case "pong-recv":
			run.Count("pong_handler_calls", 1)
		case "close-sent":
			run.Count("close_frames_written", 1)
			if o.hasCode {
				run.Seen("close_codes_written", fmt.Sprint(o.code))
			} else {
				run.Seen("close_codes_written", "none")
			}
		}
	}
	for _, o := range e.Obs {
		// whatever the sequence: the payload of a control frame above 125 bytes is never handed on
		if o.Kind == nbdrive.ObsCloseRecv {
			run.Count("close_handler_calls", 1)
			if len(o.Data) > 123 {
				violate("c13:"+slug(c.Class)+":over-long-close-frame-delivered", fmt.Sprintf("the close handler was called with code %d and a reason of %d bytes: the payload of a close frame of more than 125 bytes was handed on instead of failing the connection\nnbio: ParseErr=%v connClosed=%d onCloseErr=%v", o.Type, len(o.Data), e.ParseErr, e.ConnClosed, e.OnCloseErr), c, wire, cuts)
				return false
			}
		}
	}
	if e.ParseErr != nil {
		run.Seen("parse_errors", slug(e.ParseErr.Error()))
		run.Count("failed_by_parse_error", 1)
	} else if e.ConnClosed > 0 {
		run.Count("failed_or_closed_by_close", 1)
	}
	if e.OutBad != nil {
		violate("c13:"+c.Class+":nbio-wrote-undecodable-bytes", fmt.Sprintf("%v", e.OutBad), c, wire, cuts)
		return false
	}
	trace := func() string {
		var sb strings.Builder
		fmt.Fprintf(&sb, "reference: valid=%v failAt=%d failEnd=%d reason=%q unasserted=%v closedAt=%d; mandatory events:", v.Valid, v.FailAt, v.FailEnd, v.Reason, v.Unasserted, v.ClosedAt)
		for _, w := range v.Events {
			sb.WriteString("\n   want " + describe(w))
		}
		fmt.Fprintf(&sb, "\nnbio: ParseErr=%v connClosed=%d failedAfterBytes=%d/%d onCloseErr=%v; observed:", e.ParseErr, e.ConnClosed, e.FailFed, len(wire), e.OnCloseErr)
		for _, o := range obs {
			sb.WriteString("\n   got  " + o.String())
		}
		return sb.String()
	}
	M := v.Events
	i, j := 0, 0
	for i < len(M) && j < len(obs) {
		if matches(M[i], obs[j]) {
			if M[i].Kind == wsref.EvClose {
				// a legal close must not be answered as a protocol error
				if M[i].HasCode && wsref.ClassifyCloseCode(M[i].Code) == wsref.CloseLegal && obs[j].hasCode && obs[j].code != M[i].Code && (obs[j].code == 1002 || obs[j].code == 1007) {
					violate("c13:close:legal-close-answered-as-protocol-error", fmt.Sprintf("close code %d is legal, nbio answered with code %d\n%s", M[i].Code, obs[j].code, trace()), c, wire, cuts)
					return false
				}
				if obs[j].hasCode == M[i].HasCode && obs[j].code == M[i].Code {
					run.Count("close_code_echoed", 1)
				} else {
					run.Count("close_code_not_echoed", 1)
				}
			}
			i++
			j++
			continue
		}
		if M[i].Kind == wsref.EvMessage && len(M[i].Payload) == 0 {
			// C12's finding (empty messages are dropped); not a validation matter
			run.Count("empty_data_message_not_delivered(see_C12)", 1)
			i++
			continue
		}
		break
	}
	for i < len(M) && M[i].Kind == wsref.EvMessage && len(M[i].Payload) == 0 {
		run.Count("empty_data_message_not_delivered(see_C12)", 1)
		i++
	}
	rest := obs[j:]

	// ---- no verdict defined: only the part before the first unasserted frame is checked
	// When the frame that must fail anyway is the first one touching an
	// unasserted class, every treatment of that class leads to the same
	// verdict (fail at k), so the case stays asserted.
	assertedAnyway := !v.Valid && v.Reason != "bad-deflate" && v.UnassertedAt >= v.FailAt
	if len(v.Unasserted) > 0 && !assertedAnyway {
		for _, u := range v.Unasserted {
			run.Count("unasserted:"+u, 1)
			if e.Failed() {
				run.Count("unasserted:"+u+":nbio_failed", 1)
			}
		}
		need := 0
		for _, w := range M {
			if w.Last < v.UnassertedAt {
				need++
			}
		}
		if i < need {
			violate("c13:"+c.Class+":event-before-unasserted-frame-wrong", "an event due before the first frame without a defined verdict is missing or different\n"+trace(), c, wire, cuts)
			return false
		}
		return false // held, but not decisive
	}

	// ---- valid sequence
	if v.Valid {
		if i < len(M) {
			w := M[i]
			what := "missing"
			if j < len(obs) {
				what = "different"
			}
			sig := fmt.Sprintf("c13:%s:valid-sequence:%s-%s", c.Class, strings.ReplaceAll(wantKind(w), "-sent", ""), what)
			if e.Failed() && v.ClosedAt < 0 {
				sig = fmt.Sprintf("c13:%s:valid-sequence-rejected", c.Class)
			} else if w.Kind == wsref.EvPing && j < len(obs) && obs[j].kind == "pong-sent" {
				sig = "c13:ping:pong-payload-differs"
			}
			violate(sig, fmt.Sprintf("expected %s, %s\n%s", describe(w), what, trace()), c, wire, cuts)
			return false
		}
		if len(rest) > 0 {
			violate(fmt.Sprintf("c13:%s:valid-sequence:unexpected-%s", c.Class, rest[0].kind), fmt.Sprintf("nothing more was due, got %s\n%s", rest[0], trace()), c, wire, cuts)
			return false
		}
		if v.ClosedAt < 0 && e.Failed() {
			violate(fmt.Sprintf("c13:%s:valid-sequence-rejected", c.Class), "RFC 6455 allows the sequence, nbio failed the connection\n"+trace(), c, wire, cuts)
			return false
		}
		if v.ClosedAt >= 0 {
			if e.ConnClosed > 0 {
				run.Count("closed_after_close_handshake", 1)
			} else {
				run.Count("not_closed_after_close_handshake", 1)
			}
		}
		return len(M) > 0
	}

	// ---- invalid sequence: must fail at frame k
	k := v.FailAt
	fk := &frames[k]
	reason := v.Reason
	if i < len(M) {
		violate(fmt.Sprintf("c13:%s:event-before-offending-frame-wrong", reason), fmt.Sprintf("expected %s before the offending frame %d\n%s", describe(M[i]), k, trace()), c, wire, cuts)
		return false
	}
	// echo of an illegal close
	if reason == wsref.ReasonCloseCode || reason == wsref.ReasonUTF8CloseReason {
		off := int(fk.Payload[0])<<8 | int(fk.Payload[1])
		var ce *websocket.CloseError
		accepted := ""
		for _, o := range rest {
			if o.kind == "close-sent" && o.hasCode && o.code == off && bytes.Equal(o.payload, fk.Payload[2:]) {
				accepted = fmt.Sprintf("answered by echoing code %d and the reason", off)
			}
		}
		if errors.As(e.OnCloseErr, &ce) && ce.Code == off && reason == wsref.ReasonCloseCode {
			if accepted != "" {
				accepted += "; "
			}
			accepted += fmt.Sprintf("OnClose reports %v", e.OnCloseErr)
		}
		if accepted != "" {
			cls := closeClassName(off)
			if reason == wsref.ReasonUTF8CloseReason {
				cls = "reason"
			}
			violate(fmt.Sprintf("c13:%s:%s:accepted-and-echoed", reason, cls), fmt.Sprintf("close frame (frame %d) is illegal (%s) but was accepted: %s\n%s", k, reason, accepted, trace()), c, wire, cuts)
			return false
		}
	}
	if v.FailEnd >= 0 && !e.Failed() {
		violate(fmt.Sprintf("c13:%s:%s:not-failed", reason, frameClass(fk)), fmt.Sprintf("frame %d (%s) makes the sequence invalid (%s); the message containing it ended with frame %d, all %d bytes were parsed, and nbio neither returned an error from Parse nor closed the connection\n%s", k, frameClass(fk), reason, v.FailEnd, len(wire), trace()), c, wire, cuts)
		return false
	}
	// what came after the mandatory events
	opt := v.Optional
	oi := 0
	closeSeen := false
	for _, o := range rest {
		if closeSeen {
			violate(fmt.Sprintf("c13:%s:event-after-failure-close-frame", reason), fmt.Sprintf("after its close frame nbio still produced %s\n%s", o, trace()), c, wire, cuts)
			return false
		}
		if o.kind == "close-sent" {
			closeSeen = true
			continue
		}
		matched := false
		for oi < len(opt) {
			w := opt[oi]
			oi++
			if matches(w, o) {
				matched = true
				break
			}
		}
		if matched {
			run.Count("optional_control_frames_processed_before_failure", 1)
			continue
		}
		switch o.kind {
		case "message":
			if string(o.payload) == sentinel {
				violate(fmt.Sprintf("c13:%s:%s:later-message-delivered", reason, frameClass(fk)), fmt.Sprintf("a message sent after the message containing the offending frame %d was delivered\n%s", k, trace()), c, wire, cuts)
			} else {
				violate(fmt.Sprintf("c13:%s:%s:offending-message-delivered", reason, frameClass(fk)), fmt.Sprintf("frame %d is invalid (%s) and the message containing it reached OnMessage: %s\n%s", k, reason, o, trace()), c, wire, cuts)
			}
		case "pong-sent", "pong-recv":
			violate(fmt.Sprintf("c13:%s:%s:offending-control-frame-processed", reason, frameClass(fk)), fmt.Sprintf("frame %d is invalid (%s) but was processed: %s\n%s", k, reason, o, trace()), c, wire, cuts)
		default:
			violate(fmt.Sprintf("c13:%s:unexpected-frame-written", reason), fmt.Sprintf("%s\n%s", o, trace()), c, wire, cuts)
		}
		return false
	}
	if v.FailEnd < 0 {
		return false // held so far, the message containing frame k never ended: not decisive
	}
	run.Seen("failure_reasons_enforced", reason)
	return true
}

// observeDeferredClose re-runs an invalid sequence under the other executor
// schedule (the close job runs only after the current read has been parsed
// completely, as happens when the reader is ahead of the executor) and counts
// what is still delivered after nbio has failed the connection. The property
// statement does not forbid it (those messages do not contain the offending
// frame), so this is an observation, never a verdict.
func observeDeferredClose(c caseT, wire []byte, cuts []int) {
	cfg := c.Cfg
	cfg.DeferClose = true
	e := nbdrive.New(cfg)
	e.FeedAll(wire, cuts)
	n := 0
	for _, o := range e.Obs {
		if o.AfterFail && (o.Kind == nbdrive.ObsMessage || o.Kind == nbdrive.ObsPongRecv) {
			n++
		}
	}
	run.Count("observation:deferred_close:invalid_sequences_rerun", 1)
	if n > 0 {
		run.Count("observation:deferred_close:sequences_with_callbacks_after_failure", 1)
		run.Count("observation:deferred_close:callbacks_after_failure", int64(n))
	}
	e.Finish()
	lg.Take()
}

var rePanicVal = regexp.MustCompile(`failed: ([^\n]*)`)

func runCase(c caseT) bool {
	wd.Enter(c)
	defer wd.Leave()
	frames := make([]wsref.Frame, len(c.Frames))
	for i, s := range c.Frames {
		frames[i] = s.frame()
	}
	v := wsref.Validate(frames, wsref.Options{Compression: c.Cfg.Compression})
	wire := wsref.Encode(frames)
	cuts := c.Seg.Cuts(len(wire))
	e := nbdrive.New(c.Cfg)
	e.FeedAll(wire, cuts)
	run.Eval(1)
	run.Count("frames_in_cases", int64(len(frames)))
	run.Count("parse_calls", int64(e.ParseCalls))
	ok := judge(c, e, frames, v, wire, cuts)
	if len(e.JobPanics) > 0 {
		violate("c13:panic-in-handler-job:"+slug(strings.SplitN(e.JobPanics[0], "\n", 2)[0]), e.JobPanics[0], c, wire, cuts)
		ok = false
	}
	e.Finish()
	if e.OnCloseCalls != 1 {
		run.Count("onclose_not_called_exactly_once", 1)
	}
	if p := h.PanicLines(lg.Take()); len(p) > 0 {
		val := "panic"
		if m := rePanicVal.FindStringSubmatch(p[0]); m != nil {
			val = m[1]
		}
		ctx := "uncompressed"
		if c.Cfg.Compression {
			ctx = "compression-negotiated"
		}
		violate("c13:panic-recovered:"+ctx+":"+slug(val), fmt.Sprintf("nbio recovered a panic while parsing (reference verdict: valid=%v reason=%q unasserted=%v):\n%s", v.Valid, v.Reason, v.Unasserted, p[0]), c, wire, cuts)
		ok = false
	}
	if c.Class == "random" && !v.Valid && len(v.Unasserted) == 0 {
		observeDeferredClose(c, wire, cuts)
	}
	if ok {
		run.Nontrivial(fmt.Sprintf("%s/%d", c.Class, c.Index))
		if v.Valid {
			run.Count("decisive_valid_cases", 1)
		} else {
			run.Count("decisive_invalid_cases", 1)
		}
	}
	return ok
}

// ---------------------------------------------------------------- workloads

func pickSeg(rng *rand.Rand) nbdrive.Seg {
	switch x := rng.Intn(10); {
	case x < 2:
		return nbdrive.Seg{Kind: "whole"}
	case x < 5:
		return nbdrive.Seg{Kind: "bytes"}
	case x < 6:
		return nbdrive.Seg{Kind: "chunks", N: 2 + rng.Intn(9)}
	}
	return nbdrive.Seg{Kind: "random", N: 1 + rng.Intn(12), Seed: rng.Int63()}
}

func asciiPayload(n int) []byte {
	p := make([]byte, n)
	for i := range p {
		p[i] = 'a' + byte(i%26)
	}
	return p
}

var lenEncs = []struct {
	name   string
	n      int
	enc    int
	topBit bool
}{
	{"0", 0, 0, false},
	{"1", 1, 0, false},
	{"125", 125, 0, false},
	{"126/16bit", 126, 0, false},
	{"65535/16bit", 65535, 0, false},
	{"65536/64bit", 65536, 0, false},
	{"5/16bit-nonminimal", 5, 16, false},
	{"300/64bit-nonminimal", 300, 64, false},
	{"64bit-top-bit", 0, 64, true},
}

// headerCase builds case number n of the exhaustive single-frame header
// space: FIN x RSV1-3 x opcode x mask x length encoding x context x compression.
func headerCase(n int) caseT {
	idx := n
	fin := n%2 == 1
	n /= 2
	rsv := n % 8
	n /= 8
	op := n % 16
	n /= 16
	masked := n%2 == 1
	n /= 2
	le := lenEncs[n%len(lenEncs)]
	n /= len(lenEncs)
	ctx := n % 3
	n /= 3
	comp := n%2 == 1
	rng := run.Rand("c13-header", idx)
	c := caseT{Class: "header", Index: idx, Cfg: nbdrive.Config{Compression: comp, MsgLimit: -1}}
	ctxName := []string{"fresh", "in-text", "in-binary"}[ctx]
	c.Note = fmt.Sprintf("ctx=%s fin=%v rsv=%d op=%d mask=%v len=%s comp=%v", ctxName, fin, rsv, op, masked, le.name, comp)
	key := func() string {
		var k [4]byte
		rng.Read(k[:])
		return hex.EncodeToString(k[:])
	}
	switch ctx {
	case 1:
		c.Frames = append(c.Frames, frameSpec{Op: wsref.OpText, Masked: true, Key: key(), P: hex.EncodeToString([]byte("ab"))})
	case 2:
		c.Frames = append(c.Frames, frameSpec{Op: wsref.OpBinary, Masked: true, Key: key(), P: "00ff"})
	}
	f := frameSpec{Fin: fin, Rsv: rsv, Op: op, Masked: masked, LenEnc: le.enc, TopBit: le.topBit}
	if masked {
		f.Key = key()
	}
	plen := le.n
	compressedStart := comp && rsv&4 != 0 && (op == 1 || op == 2) && ctx == 0
	switch {
	case le.topBit:
	case op == wsref.OpClose && plen >= 2 && plen <= 125:
		f.P = hex.EncodeToString(wsref.ClosePayload(1000, string(asciiPayload(plen-2))))
	case compressedStart && plen >= 6:
		// a DEFLATE stream of exactly plen bytes (stored blocks)
		if plen-6 <= 512 {
			f.P = hex.EncodeToString(wsref.StoredDeflate(asciiPayload(plen - 6)))
		} else {
			f.GenLen, f.GenStored = plen-6, true
		}
	case compressedStart && plen == 1:
		f.P = "00" // the compressed form of the empty message
	case plen > 512:
		f.GenLen = plen
		if op == 2 || (op == 0 && ctx == 2) {
			f.GenSeed = int64(idx) + 1
		}
	default:
		p := asciiPayload(plen)
		if op == 2 || (op == 0 && ctx == 2) {
			rng.Read(p)
		}
		f.P = hex.EncodeToString(p)
	}
	c.Frames = append(c.Frames, f)
	// finish an open message, then the sentinel - unless a close frame ended things
	open := ctx != 0
	if op <= 2 {
		open = !fin
	}
	if open {
		c.Frames = append(c.Frames, frameSpec{Fin: true, Op: wsref.OpCont, Masked: true, Key: key(), P: hex.EncodeToString([]byte("z"))})
	}
	c.Frames = append(c.Frames, specOf(sentinelFrame(true)))
	if le.n >= 65535 {
		c.Seg = nbdrive.Seg{Kind: "random", N: 1 + rng.Intn(6), Seed: rng.Int63()}
	} else {
		c.Seg = pickSeg(rng)
	}
	run.Seen("header_cells", fmt.Sprintf("%s/op%d/fin%v/rsv%d/%s/mask%v/comp%v", ctxName, op, fin, rsv, le.name, masked, comp))
	return c
}

const nHeader = 2 * 8 * 16 * 2 * 9 * 3 * 2

func closeCodeCase(code int) caseT {
	rng := run.Rand("c13-closecode", code)
	c := caseT{Class: "closecode", Index: code, Cfg: nbdrive.Config{Client: code%8 == 7, MsgLimit: -1}}
	reason := ""
	if code%3 == 1 {
		reason = "bye"
	} else if code%3 == 2 {
		reason = "grüß" // multi-byte, valid
	}
	masked := !c.Cfg.Client
	var k [4]byte
	rng.Read(k[:])
	f := wsref.Frame{Fin: true, Opcode: wsref.OpClose, Masked: masked, Key: k, Payload: wsref.ClosePayload(code, reason)}
	c.Frames = []frameSpec{specOf(f), specOf(sentinelFrame(masked))}
	c.Seg = pickSeg(rng)
	return c
}

// UTF-8 corpus: class -> byte strings.
var utf8Corpus = []struct {
	class string
	valid bool
	b     string
}{
	{"valid-ascii", true, "hello"},
	{"valid-2byte", true, "\xc2\x80\xdf\xbf"},
	{"valid-3byte", true, "\xe0\xa0\x80\xed\x9f\xbf\xee\x80\x80\xef\xbf\xbf"},
	{"valid-4byte", true, "\xf0\x90\x80\x80\xf4\x8f\xbf\xbf\xf0\x9f\x98\x80"},
	{"valid-nul-and-7f", true, "\x00\x7f"},
	{"valid-mixed", true, "κόσμε-\xe2\x82\xac-\xf0\x9d\x84\x9e"},
	{"overlong-2byte", false, "\xc0\x80"},
	{"overlong-2byte-c1", false, "\xc1\xbf"},
	{"overlong-3byte", false, "\xe0\x80\x80"},
	{"overlong-3byte-max", false, "\xe0\x9f\xbf"},
	{"overlong-4byte", false, "\xf0\x80\x80\x80"},
	{"overlong-4byte-max", false, "\xf0\x8f\xbf\xbf"},
	{"surrogate-low", false, "\xed\xa0\x80"},
	{"surrogate-high", false, "\xed\xbf\xbf"},
	{"surrogate-pair", false, "\xed\xa0\xbd\xed\xb8\x80"},
	{"above-10ffff", false, "\xf4\x90\x80\x80"},
	{"above-10ffff-f5", false, "\xf5\x80\x80\x80"},
	{"five-byte-form", false, "\xf8\x88\x80\x80\x80"},
	{"six-byte-form", false, "\xfc\x84\x80\x80\x80\x80"},
	{"byte-fe", false, "\xfe"},
	{"byte-ff", false, "\xff"},
	{"lone-continuation", false, "\x80"},
	{"lone-continuation-bf", false, "\xbf"},
	{"truncated-2byte", false, "\xc2"},
	{"truncated-3byte", false, "\xe2\x82"},
	{"truncated-4byte", false, "\xf0\x9f\x98"},
	{"truncated-then-ascii", false, "\xe2\x82A"},
	{"bad-continuation", false, "\xe2\x28\xa1"},
}

// utf8Cases enumerates: corpus entry x surrounding x where it goes (single
// text frame, two fragments split at every byte, three fragments, compressed,
// close reason) x role.
func utf8Cases() []caseT {
	var out []caseT
	idx := 0
	add := func(c caseT) {
		c.Class = "utf8"
		c.Index = idx
		idx++
		out = append(out, c)
	}
	surround := []struct{ pre, post string }{{"", ""}, {"ab", "cd"}, {"é", "\xf0\x9f\x98\x80"}}
	for _, u := range utf8Corpus {
		for si, s := range surround {
			full := []byte(s.pre + u.b + s.post)
			for _, client := range []bool{false, true} {
				masked := !client
				cfg := nbdrive.Config{Client: client, MsgLimit: -1}
				rng := rand.New(rand.NewSource(int64(idx)*977 + 5))
				key := func() [4]byte {
					var k [4]byte
					rng.Read(k[:])
					return k
				}
				mk := func(note string, frames []wsref.Frame, comp bool) {
					c := caseT{Note: u.class + " " + note, Cfg: cfg}
					c.Cfg.Compression = comp
					for _, f := range frames {
						c.Frames = append(c.Frames, specOf(f))
					}
					c.Frames = append(c.Frames, specOf(sentinelFrame(masked)))
					c.Seg = pickSeg(rng)
					add(c)
				}
				// single frame
				mk("single-frame", []wsref.Frame{{Fin: true, Opcode: wsref.OpText, Masked: masked, Key: key(), Payload: full}}, false)
				// two fragments, split at every byte position (0 and len included: empty fragments)
				for at := 0; at <= len(full); at++ {
					fr := wsref.Fragment(wsref.Message{Type: wsref.OpText, Payload: full}, wsref.FragmentOpts{Cuts: []int{at}, Masked: masked, NextKey: key})
					mk(fmt.Sprintf("split-at-%d", at), fr, false)
					if si == 1 && at%2 == 0 {
						// with a ping between the fragments
						withPing := []wsref.Frame{fr[0], {Fin: true, Opcode: wsref.OpPing, Masked: masked, Key: key(), Payload: []byte("p")}, fr[1]}
						mk(fmt.Sprintf("split-at-%d-ping-between", at), withPing, false)
					}
				}
				// three fragments
				if len(full) >= 3 {
					a := 1 + rng.Intn(len(full)-2)
					b := a + 1 + rng.Intn(len(full)-a-1)
					mk(fmt.Sprintf("three-fragments-%d-%d", a, b), wsref.Fragment(wsref.Message{Type: wsref.OpText, Payload: full}, wsref.FragmentOpts{Cuts: []int{a, b}, Masked: masked, NextKey: key}), false)
				}
				// one byte per fragment
				if si == 0 {
					var cuts []int
					for i := 1; i < len(full); i++ {
						cuts = append(cuts, i)
					}
					mk("one-byte-per-fragment", wsref.Fragment(wsref.Message{Type: wsref.OpText, Payload: full}, wsref.FragmentOpts{Cuts: cuts, Masked: masked, NextKey: key}), false)
				}
				// compressed, whole and split inside the compressed bytes
				cp := wsref.Deflate(full, 1+idx%9)
				cf := wsref.Frame{Fin: true, Rsv1: true, Opcode: wsref.OpText, Masked: masked, Key: key(), Payload: cp}
				mk("compressed-single-frame", []wsref.Frame{cf}, true)
				for at := 0; at <= len(cp); at += 1 + len(cp)/6 {
					fr := wsref.Fragment(wsref.Message{Type: wsref.OpText, Payload: cp}, wsref.FragmentOpts{Cuts: []int{at}, Masked: masked, NextKey: key})
					fr[0].Rsv1 = true
					mk(fmt.Sprintf("compressed-split-at-%d", at), fr, true)
				}
				// the same bytes in a binary message are always fine
				if si == 1 {
					mk("binary-single-frame", []wsref.Frame{{Fin: true, Opcode: wsref.OpBinary, Masked: masked, Key: key(), Payload: full}}, false)
				}
				// as a close reason
				if len(full) <= 123 {
					c := caseT{Note: u.class + " close-reason", Cfg: cfg}
					c.Frames = []frameSpec{specOf(wsref.Frame{Fin: true, Opcode: wsref.OpClose, Masked: masked, Key: key(), Payload: wsref.ClosePayload(1000+idx%4, string(full))}), specOf(sentinelFrame(masked))}
					c.Seg = pickSeg(rng)
					add(c)
				}
			}
		}
	}
	return out
}

// closeFrameCases: close payload shapes other than the code sweep.
func closeFrameCases() []caseT {
	var out []caseT
	idx := 0
	for _, client := range []bool{false, true} {
		masked := !client
		for _, ctx := range []int{0, 1} {
			for _, p := range [][]byte{nil, {0x03}, {0xe8}, wsref.ClosePayload(1000, ""), wsref.ClosePayload(1001, "going away"), wsref.ClosePayload(4999, strings.Repeat("r", 123)), wsref.ClosePayload(3000, "x")} {
				c := caseT{Class: "closeframe", Index: idx, Cfg: nbdrive.Config{Client: client, MsgLimit: -1}}
				idx++
				if ctx == 1 {
					c.Frames = append(c.Frames, specOf(wsref.Frame{Opcode: wsref.OpText, Masked: masked, Key: [4]byte{1, 2, 3, 4}, Payload: []byte("open")}))
				}
				c.Frames = append(c.Frames, specOf(wsref.Frame{Fin: true, Opcode: wsref.OpClose, Masked: masked, Key: [4]byte{7, 7, 7, 7}, Payload: p}))
				c.Seg = nbdrive.Seg{Kind: []string{"whole", "bytes"}[idx%2]}
				out = append(out, c)
			}
		}
	}
	return out
}

// randomCase builds a valid sequence and, half of the time, breaks it in one place.
func randomCase(i int) caseT {
	rng := run.Rand("c13-random", i)
	client := rng.Intn(2) == 0
	comp := rng.Intn(3) == 0
	masked := !client
	c := caseT{Class: "random", Index: i, Cfg: nbdrive.Config{Client: client, Compression: comp, MsgLimit: -1, ObserveClose: i%2 == 1}}
	key := func() [4]byte {
		var k [4]byte
		if rng.Intn(10) > 0 {
			rng.Read(k[:])
		}
		return k
	}
	ctl := func() wsref.Frame {
		op := byte(wsref.OpPing)
		if rng.Intn(2) == 0 {
			op = wsref.OpPong
		}
		p := make([]byte, []int{0, 1, 7, 125}[rng.Intn(4)])
		rng.Read(p)
		return wsref.Frame{Fin: true, Opcode: op, Masked: masked, Key: key(), Payload: p}
	}
	var frames []wsref.Frame
	type span struct{ first, last int }
	var msgs []span
	maxLen := len(sentinel) // longest message of the sequence, on the wire and as delivered
	broken := false
	nm := 1 + rng.Intn(4)
	for m := 0; m < nm; m++ {
		if rng.Intn(3) == 0 {
			frames = append(frames, ctl())
		}
		typ := byte(1 + rng.Intn(2))
		n := []int{0, 1, 2, 10, 125, 126, 300, 70000}[rng.Intn(8)]
		if n == 70000 && rng.Intn(4) > 0 {
			n = rng.Intn(200)
		}
		var p []byte
		if typ == wsref.OpText {
			p = nbdrive.GenPayload(nbdrive.PayText, n, rng.Int63())
		} else {
			p = nbdrive.GenPayload(nbdrive.PayRandom, n, rng.Int63())
		}
		isComp := comp && rng.Intn(2) == 0
		wp := p
		if isComp {
			wp = wsref.Deflate(p, -2+rng.Intn(12))
		}
		var cuts []int
		for k := rng.Intn(4); k > 0; k-- {
			cuts = append(cuts, rng.Intn(len(wp)+1))
		}
		for a := 1; a < len(cuts); a++ {
			for b := a; b > 0 && cuts[b] < cuts[b-1]; b-- {
				cuts[b], cuts[b-1] = cuts[b-1], cuts[b]
			}
		}
		fr := wsref.Fragment(wsref.Message{Type: typ, Payload: wp}, wsref.FragmentOpts{Cuts: cuts, Masked: masked, NextKey: key})
		fr[0].Rsv1 = isComp
		if len(p) > maxLen {
			maxLen = len(p)
		}
		if len(wp) > maxLen {
			maxLen = len(wp)
		}
		sp := span{first: len(frames)}
		for fi := range fr {
			if fi > 0 && rng.Intn(3) == 0 {
				frames = append(frames, ctl())
			}
			frames = append(frames, fr[fi])
		}
		sp.last = len(frames) - 1
		msgs = append(msgs, sp)
	}
	insert := func(at int, f wsref.Frame) {
		frames = append(frames, wsref.Frame{})
		copy(frames[at+1:], frames[at:])
		frames[at] = f
	}
	closed := false
	if rng.Intn(2) == 0 {
		// break it
		broken = true
		mut := rng.Intn(11)
		at := rng.Intn(len(frames))
		c.Note = fmt.Sprintf("mutation %d at %d", mut, at)
		switch mut {
		case 0:
			if rng.Intn(2) == 0 {
				frames[at].Rsv2 = true
			} else {
				frames[at].Rsv3 = true
			}
		case 1:
			if !comp {
				frames[at].Rsv1 = true
			} else {
				frames[at].Rsv2 = true
			}
		case 2:
			frames[at].Opcode = []byte{3, 4, 5, 6, 7, 11, 12, 13, 14, 15}[rng.Intn(10)]
		case 3:
			f := ctl()
			f.Fin = false
			insert(at, f)
		case 4:
			f := ctl()
			f.Payload = make([]byte, []int{126, 127, 200, 65536}[rng.Intn(4)])
			if or := run.Rand("c13-random-overlong", i); or.Intn(3) == 0 {
				// an over-long close frame whose code and reason are fine in themselves
				f.Opcode = wsref.OpClose
				f.Payload = wsref.ClosePayload(1000, strings.Repeat("r", len(f.Payload)-2))
			}
			insert(at, f)
		case 5:
			// stray continuation between messages
			sp := msgs[rng.Intn(len(msgs))]
			f := wsref.Frame{Fin: rng.Intn(2) == 0, Opcode: wsref.OpCont, Masked: masked, Key: key()}
			if rng.Intn(2) == 0 {
				f.Payload = []byte("stray")
			}
			insert(sp.first, f)
			if !f.Fin {
				g := wsref.Frame{Fin: true, Opcode: wsref.OpCont, Masked: masked, Key: key()}
				if rng.Intn(2) == 0 {
					g.Payload = []byte("tail")
				}
				insert(sp.first+1, g)
			}
		case 6:
			// a new data frame inside a fragmented message
			var frag []span
			for _, sp := range msgs {
				if sp.last > sp.first {
					frag = append(frag, sp)
				}
			}
			if len(frag) == 0 {
				frames[at].Rsv3 = true
				break
			}
			sp := frag[rng.Intn(len(frag))]
			f := wsref.Frame{Fin: rng.Intn(2) == 0, Opcode: byte(1 + rng.Intn(2)), Masked: masked, Key: key(), Payload: []byte("intruder")}
			insert(sp.first+1+rng.Intn(sp.last-sp.first), f)
		case 7:
			// invalid UTF-8 inside an uncompressed text message
			bad := []string{"\xc0\x80", "\xed\xa0\x80", "\xf4\x90\x80\x80", "\xe2\x82", "\xff", "\x80"}[rng.Intn(6)]
			done := false
			for _, sp := range msgs {
				if frames[sp.first].Opcode == wsref.OpText && !frames[sp.first].Rsv1 {
					fi := sp.first + rng.Intn(sp.last-sp.first+1)
					if frames[fi].IsControl() {
						fi = sp.last
					}
					frames[fi].Payload = append(append([]byte{}, frames[fi].Payload...), bad...)
					done = true
					break
				}
			}
			if !done {
				insert(len(frames), wsref.Frame{Fin: true, Opcode: wsref.OpText, Masked: masked, Key: key(), Payload: []byte("x" + bad)})
			}
		case 8:
			var p []byte
			switch rng.Intn(4) {
			case 0:
				p = []byte{0x03}
			case 1:
				p = wsref.ClosePayload([]int{0, 999, 1004, 1005, 1006, 1015, 1016, 2999, 5000, 65535}[rng.Intn(10)], "")
			case 2:
				p = wsref.ClosePayload(1000, "\xed\xa0\x80")
			default:
				p = wsref.ClosePayload(1001, "ok\xff")
			}
			insert(at, wsref.Frame{Fin: true, Opcode: wsref.OpClose, Masked: masked, Key: key(), Payload: p})
		case 9:
			frames[at].LenBits = 64
			frames[at].DeclOverride = true
			frames[at].DeclLen = 1<<63 | uint64(len(frames[at].Payload))
		case 10:
			// invalid UTF-8 inside a compressed text message
			if !comp {
				frames[at].Rsv3 = true
				break
			}
			insert(len(frames), wsref.Frame{Fin: true, Rsv1: true, Opcode: wsref.OpText, Masked: masked, Key: key(), Payload: wsref.Deflate([]byte("abc\xf5def"), 1)})
		}
	} else if rng.Intn(3) == 0 {
		var p []byte
		switch rng.Intn(4) {
		case 0:
		case 1:
			p = wsref.ClosePayload(1000, "")
		case 2:
			p = wsref.ClosePayload([]int{1001, 1002, 1003, 1007, 1008, 1009, 1010, 1011, 3000, 3999, 4000, 4999}[rng.Intn(12)], "reason é")
		default:
			p = wsref.ClosePayload(1000, strings.Repeat("r", 123))
		}
		frames = append(frames, wsref.Frame{Fin: true, Opcode: wsref.OpClose, Masked: masked, Key: key(), Payload: p})
		closed = true
	}
	if !closed {
		frames = append(frames, sentinelFrame(masked))
	}
	if lr := run.Rand("c13-random-limit", i); !broken && lr.Intn(3) == 0 {
		// a message length limit that every message of the (valid) sequence meets exactly or with
		// little room: control frames, between fragments or on their own, are not messages and
		// must not be counted against it
		c.Cfg.MsgLimit = maxLen + []int{0, 0, 1, 50}[lr.Intn(4)]
		c.Note = fmt.Sprintf("message length limit %d (longest message %d)", c.Cfg.MsgLimit, maxLen)
	}
	if fr := run.Rand("c13-random-maxframe", i); fr.Intn(4) == 0 {
		// the sender's frame payload size: it fragments data messages, never the pong or close
		// frame the endpoint answers with
		c.Cfg.MaxFrame = []int{1, 16, 100, 124, 125, 126}[fr.Intn(6)]
	}
	for _, f := range frames {
		s := specOf(f)
		c.Frames = append(c.Frames, s)
	}
	c.Seg = pickSeg(rng)
	if len(wsref.Encode(frames)) > 20000 && c.Seg.Kind == "bytes" {
		c.Seg = nbdrive.Seg{Kind: "random", N: 8, Seed: rng.Int63()}
	}
	return c
}

func main() {
	run = h.Start("C13")
	defer run.Finish()
	lg = nbdrive.InstallLogger()
	wd = nbdrive.StartWatchdog(run, "c13")
	wd.SpinCPU = 30 * time.Second
	if run.Phase == "e2e" {
		if run.Replay != "" {
			var c e2eCase
			if err := run.ReplayCase(&c); err != nil {
				fmt.Println("replay:", err)
				return
			}
			runE2E(run, c)
			return
		}
		n := run.N(72, 432)
		for i := 0; i < n; i++ {
			if !run.Mine(i) {
				continue
			}
			c := genE2E(run, i)
			run.Begin(c)
			runE2E(run, c)
		}
		return
	}
	if run.Replay != "" {
		var c caseT
		if err := run.ReplayCase(&c); err != nil {
			fmt.Println("replay:", err)
			return
		}
		c.WireHex, c.Cuts = "", nil
		runCase(c)
		return
	}
	idx := 0
	step := func(gen func() caseT) {
		idx++
		if !run.Mine(idx) {
			return
		}
		c := gen()
		if (idx/run.Shards)%200 == 0 {
			run.Begin(c)
		}
		ok := runCase(c)
		if ok && (idx/run.Shards)%4000 == 1 {
			run.Sample(c)
		}
	}
	for n := 0; n < nHeader; n++ {
		n := n
		step(func() caseT { return headerCase(n) })
	}
	for code := 0; code < 65536; code++ {
		code := code
		step(func() caseT { return closeCodeCase(code) })
	}
	for _, c := range utf8Cases() {
		c := c
		step(func() caseT { return c })
	}
	// an endpoint with a data-frame callback only: both roles
	for k := 0; k < 2; k++ {
		idx++
		if run.Mine(idx) {
			runFramesOnly(k)
		}
	}
	for _, c := range closeFrameCases() {
		c := c
		step(func() caseT { return c })
	}
	nRand := run.N(150000, 3000000)
	for i := 0; i < nRand; i++ {
		i := i
		step(func() caseT { return randomCase(i) })
	}
}
