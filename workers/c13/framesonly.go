package main

// Class "frames-only": an endpoint that registers only a data-frame callback
// (Upgrader.OnDataFrame), no message callback. The fragmentation rules are
// the same: a continuation without a start and a new data frame inside a
// fragmented message fail the connection, and the frames of a message are
// reported with the type of its first frame. Payloads are ASCII and there is
// no compression, so only the fragmentation structure is decided here (frames
// without payload are not handed to the data-frame callback at all and are
// left out).

import (
	"bytes"
	"fmt"

	"verif/internal/wsref"
	"verif/internal/wsref/nbdrive"
)

type foCase struct {
	Name   string
	Frames []wsref.Frame
	// Want: the messages that must have been delivered before the failure (or all of them)
	Want []wsref.Message
	// Fail: the sequence must fail the connection
	Fail bool
}

func fr(op byte, fin bool, p string, masked bool) wsref.Frame {
	return wsref.Frame{Fin: fin, Opcode: op, Masked: masked, Key: [4]byte{3, 1, 4, 1}, Payload: []byte(p)}
}

func framesOnlyCases(masked bool) []foCase {
	T, B, C, P := byte(wsref.OpText), byte(wsref.OpBinary), byte(wsref.OpCont), byte(wsref.OpPing)
	m := func(t byte, p string) wsref.Message { return wsref.Message{Type: t, Payload: []byte(p)} }
	f := func(op byte, fin bool, p string) wsref.Frame { return fr(op, fin, p, masked) }
	return []foCase{
		{Name: "text-then-binary", Frames: []wsref.Frame{f(T, true, "one"), f(B, true, "two")}, Want: []wsref.Message{m(T, "one"), m(B, "two")}},
		{Name: "binary-then-text", Frames: []wsref.Frame{f(B, true, "one"), f(T, true, "two"), f(B, true, "three")}, Want: []wsref.Message{m(B, "one"), m(T, "two"), m(B, "three")}},
		{Name: "fragmented-then-other-type", Frames: []wsref.Frame{f(B, false, "ab"), f(P, true, "p"), f(C, false, "cd"), f(C, true, "ef"), f(T, true, "next")}, Want: []wsref.Message{m(B, "abcdef"), m(T, "next")}},
		{Name: "continuation-after-complete-message", Frames: []wsref.Frame{f(T, true, "one"), f(C, true, "stray"), f(T, true, "after")}, Want: []wsref.Message{m(T, "one")}, Fail: true},
		{Name: "continuation-first", Frames: []wsref.Frame{f(C, true, "stray"), f(T, true, "after")}, Fail: true},
		{Name: "text-inside-fragmented", Frames: []wsref.Frame{f(T, false, "ab"), f(T, true, "inner"), f(C, true, "tail")}, Fail: true},
		{Name: "binary-inside-fragmented", Frames: []wsref.Frame{f(B, true, "one"), f(T, false, "ab"), f(B, true, "inner"), f(C, true, "tail")}, Want: []wsref.Message{m(B, "one")}, Fail: true},
		{Name: "continuation-after-fragmented-message-ended", Frames: []wsref.Frame{f(T, false, "ab"), f(C, true, "cd"), f(C, true, "stray")}, Want: []wsref.Message{m(T, "abcd")}, Fail: true},
	}
}

func runFramesOnly(idx int) {
	client := idx%2 == 1
	masked := !client
	segs := []nbdrive.Seg{{Kind: "whole"}, {Kind: "bytes"}}
	for _, fc := range framesOnlyCases(masked) {
		for si, sg := range segs {
			run.Eval(1)
			c := caseT{Class: "frames-only", Index: idx*100 + si, Note: fc.Name}
			c.Cfg = nbdrive.Config{Client: client, MsgLimit: -1, FramesOnly: true}
			c.Seg = sg
			wire := wsref.Encode(fc.Frames)
			cuts := sg.Cuts(len(wire))
			e := nbdrive.New(c.Cfg)
			e.FeedAll(wire, cuts)
			var got []wsref.Message
			for _, o := range e.Obs {
				if o.Kind == nbdrive.ObsMessage {
					got = append(got, wsref.Message{Type: byte(o.Type), Payload: o.Data})
				}
			}
			describe := func() string {
				s := ""
				for _, g := range got {
					s += fmt.Sprintf(" (type %d %q)", g.Type, g.Payload)
				}
				if s == "" {
					s = " none"
				}
				return fmt.Sprintf("frames: %s\nmessages put together from the data-frame callbacks:%s\nParse error: %v, connection closed by nbio: %v", describeFramesFO(fc.Frames), s, e.ParseErr, e.ConnClosed > 0)
			}
			ok := true
			// the messages before the failure point (or all): type and payload
			for i, w := range fc.Want {
				if i >= len(got) || got[i].Type != w.Type || !bytes.Equal(got[i].Payload, w.Payload) {
					sig := "c13:frames-only:" + fc.Name + ":message-missing-or-changed"
					if i < len(got) && got[i].Type != w.Type && bytes.Equal(got[i].Payload, w.Payload) {
						sig = "c13:frames-only:" + fc.Name + ":frames-reported-with-wrong-message-type"
					}
					violate(sig, fmt.Sprintf("message %d must be (type %d %q)\n%s", i, w.Type, w.Payload, describe()), c, wire, cuts)
					ok = false
					break
				}
			}
			if ok && fc.Fail {
				if !e.Failed() {
					violate("c13:frames-only:"+fc.Name+":not-failed", "the sequence must fail the connection\n"+describe(), c, wire, cuts)
					ok = false
				} else if len(got) > len(fc.Want) {
					violate("c13:frames-only:"+fc.Name+":offending-frame-delivered", "a message containing the offending frame (or one after it) was delivered\n"+describe(), c, wire, cuts)
					ok = false
				}
			}
			if ok && !fc.Fail && (e.Failed() || len(got) != len(fc.Want)) {
				violate("c13:frames-only:"+fc.Name+":valid-sequence-not-accepted", describe(), c, wire, cuts)
				ok = false
			}
			e.Finish()
			lg.Take()
			if ok {
				run.Nontrivial(fmt.Sprintf("frames-only/%d/%s/%d", idx, fc.Name, si))
			}
		}
	}
}

func describeFramesFO(fs []wsref.Frame) string {
	s := ""
	for _, f := range fs {
		s += fmt.Sprintf("[op=%x fin=%v %q] ", f.Opcode, f.Fin, f.Payload)
	}
	return s
}
