// C03 - connection lifecycle and truthful dial results. History monitor:
// open/close notifications, dial callbacks and the results of operations
// issued after Close returned are recorded with one logical clock; the oracle
// checks exactly-once close, open-before-close, first-cause errors,
// closed-indication after Close (and that the freed descriptor number is not
// touched: a victim socket occupying it must stay silent) and dial outcomes
// against what the harness's own listeners really accepted.
package main

import (
	"errors"
	"fmt"
	"io"
	"math/rand"
	"net"
	"os"
	"strings"
	"sync"
	"sync/atomic"
	"syscall"
	"time"

	"github.com/lesismal/nbio"

	"verif/internal/h"
	"verif/internal/outb"
)

type connPlan struct {
	Origin   string `json:"origin"`   // accept | add | dial
	Scenario string `json:"scenario"` // peer-close | peer-reset | app-close | app-close-error | multi-close | deadline | overflow | close-in-onopen | stop
	Closers  int    `json:"closers,omitempty"`
	Traffic  bool   `json:"traffic,omitempty"`
}

type dialPlan struct {
	Kind string `json:"kind"` // accepted | refused | timeout | pending-stop | unix-missing | unix-backlog-full
}

type caseT struct {
	Index int        `json:"index"`
	Cfg   outb.Cfg   `json:"cfg"`
	Conns []connPlan `json:"conns"`
	Dials []dialPlan `json:"dials"`
	Delay bool       `json:"delay_points"`
	Shim  bool       `json:"shim,omitempty"`
	Seed  int64      `json:"seed"`
}

var nets = []string{"tcp", "unix"}
var modes = []string{"LT", "ET", "ONESHOT"}
var scenarios = []string{"peer-close", "peer-reset", "app-close", "app-close-error", "multi-close", "deadline", "overflow", "close-in-onopen", "stop", "multi-close", "backlog-reset", "backlog-close", "write-error", "peer-close-in-handler"}

func genCase(r *h.Run, phase string, idx int) caseT {
	rng := r.Rand("c03-"+phase, idx)
	c := caseT{Index: idx, Seed: rng.Int63()}
	c.Cfg.Net = nets[idx%2]
	c.Cfg.Mode = modes[(idx/2)%3]
	c.Cfg.NPoller = 1 + rng.Intn(3)
	c.Cfg.MaxWB = 64 << 10
	// asynchronous reading (ET and ONESHOT): the end of the stream is met by a reading job
	c.Cfg.Async = c.Cfg.Mode != "LT" && (idx/6)%2 == 1
	c.Delay = rng.Intn(2) == 0
	c.Shim = phase == "shim"
	n := 4 + rng.Intn(12)
	for i := 0; i < n; i++ {
		p := connPlan{Origin: []string{"accept", "accept", "add", "dial"}[rng.Intn(4)], Scenario: scenarios[rng.Intn(len(scenarios))], Traffic: rng.Intn(2) == 0}
		if p.Scenario == "multi-close" {
			p.Closers = 2 + rng.Intn(7)
		}
		if p.Origin == "dial" && p.Scenario == "close-in-onopen" {
			p.Scenario = "app-close" // dialed connections get no open notification
		}
		if p.Scenario == "backlog-reset" || p.Scenario == "backlog-close" || p.Scenario == "write-error" || p.Scenario == "peer-close-in-handler" {
			p.Traffic = false
		}
		if p.Scenario == "write-error" && phase != "shim" {
			p.Scenario = "backlog-reset"
		}
		c.Conns = append(c.Conns, p)
	}
	if c.Cfg.Net == "tcp" {
		kinds := []string{"accepted", "refused", "timeout", "pending-stop"}
		for i := 0; i < 3; i++ {
			c.Dials = append(c.Dials, dialPlan{Kind: kinds[rng.Intn(len(kinds))]})
		}
	} else {
		c.Dials = append(c.Dials, dialPlan{Kind: "unix-missing"}, dialPlan{Kind: "unix-backlog-full"})
	}
	return c
}

// ---------------------------------------------------------------- recording

type holdGate struct {
	fd              int
	closed, release chan struct{}
}

type slowGate struct {
	entered, release chan struct{}
}

type connRec struct {
	plan       connPlan
	c          *nbio.Conn
	opens      []int64
	closes     []int64
	closeErrs  []error
	causes     []error // errors the harness injected through CloseWithError
	appClosed  bool    // a Close()/CloseWithError returned
	closeRet   int64
	peer       net.Conn
	expectPeer bool
}

type world struct {
	mu     sync.Mutex
	conns  map[*nbio.Conn]*connRec
	order  []*connRec
	events int64
}

func (w *world) rec(c *nbio.Conn) *connRec {
	w.mu.Lock()
	defer w.mu.Unlock()
	cr := w.conns[c]
	if cr == nil {
		cr = &connRec{c: c}
		w.conns[c] = cr
		w.order = append(w.order, cr)
	}
	return cr
}

var progress int64

func isPeerClass(err error) bool {
	if err == nil {
		return false
	}
	if errors.Is(err, io.EOF) || errors.Is(err, syscall.ECONNRESET) || errors.Is(err, syscall.EPIPE) {
		return true
	}
	return false
}

func sigFor(c caseT, s string) string {
	if c.Cfg.Async {
		return fmt.Sprintf("c03:%s-async:%s", c.Cfg.Mode, s)
	}
	return fmt.Sprintf("c03:%s:%s", c.Cfg.Mode, s)
}

func runCase(r *h.Run, c caseT) {
	r.Eval(1)
	rng := rand.New(rand.NewSource(c.Seed))
	env, err := outb.NewEnv(c.Cfg)
	if err != nil {
		r.Inconclusive(fmt.Sprintf("case %d: engine start: %v", c.Index, err))
		return
	}
	stopped := false
	defer func() {
		if !stopped {
			env.Stop()
		}
	}()
	w := &world{conns: map[*nbio.Conn]*connRec{}}
	var closeInOpen sync.Map // remote addr string -> true
	var delaySeed int64 = c.Seed | 1
	if c.Delay {
		nbio.VerifSetPoint(func(name string, cn *nbio.Conn) {
			if name == "close.beforeTeardown" || name == "addConn.afterOnOpen" || name == "acceptor.afterAccept" {
				x := atomic.AddInt64(&delaySeed, 0x1E3779B97F4A7C15)
				x ^= x >> 31
				switch uint64(x) % 6 {
				case 0:
					time.Sleep(time.Duration(uint64(x>>8)%300) * time.Microsecond)
				case 1, 2:
					for i := 0; i < 4; i++ {
						time.Sleep(0)
					}
				}
			}
		})
		defer nbio.VerifSetPoint(nil)
	}
	srv := make(chan *nbio.Conn, 64)
	env.OnOpen = func(cn *nbio.Conn) {
		cr := w.rec(cn)
		t := outb.Tick()
		w.mu.Lock()
		cr.opens = append(cr.opens, t)
		w.mu.Unlock()
		atomic.AddInt64(&progress, 1)
		// connections are created one at a time: a pending request is taken by the next open
		if _, ok := closeInOpen.LoadAndDelete("next"); ok {
			_ = cn.Close()
		}
		if v, ok := closeInOpen.LoadAndDelete("hold"); ok {
			// closed inside its own open handler, which then does not return for a while: the
			// descriptor number is free again although the engine has not finished with the connection
			hg := v.(*holdGate)
			_ = cn.Close()
			hg.fd = cn.Hash()
			close(hg.closed)
			<-hg.release
		}
		srv <- cn
	}
	env.OnCloseHook = func(cn *nbio.Conn, e error) {
		cr := w.rec(cn)
		t := outb.Tick()
		w.mu.Lock()
		cr.closes = append(cr.closes, t)
		cr.closeErrs = append(cr.closeErrs, e)
		w.mu.Unlock()
		atomic.AddInt64(&progress, 1)
	}
	// "peer-close-in-handler": the data handler of that connection is held while the peer sends more and
	// closes, so the hang-up is dispatched while a handler (reading job) of the same connection is running
	var slow sync.Map // *nbio.Conn -> *slowGate
	env.OnData = func(cn *nbio.Conn, b []byte) {
		atomic.AddInt64(&progress, 1)
		if g, ok := slow.LoadAndDelete(cn); ok {
			sg := g.(*slowGate)
			close(sg.entered)
			<-sg.release
		}
	}

	// harness-side listener for "add" (we dial it ourselves, wrap our end) and "dial" origins
	var ln net.Listener
	var lnDir string
	if c.Cfg.Net == "tcp" {
		ln, err = net.Listen("tcp", "127.0.0.1:0")
	} else {
		lnDir, _ = os.MkdirTemp("", "vc03")
		defer os.RemoveAll(lnDir)
		ln, err = net.Listen("unix", lnDir+"/h.sock")
	}
	if err != nil {
		r.Inconclusive("harness listen: " + err.Error())
		return
	}
	defer ln.Close()
	var accMu sync.Mutex
	accepted := map[string]net.Conn{} // remote addr -> conn (tcp)
	var acceptedList []net.Conn
	go func() {
		for {
			pc, err := ln.Accept()
			if err != nil {
				return
			}
			accMu.Lock()
			accepted[pc.RemoteAddr().String()] = pc
			acceptedList = append(acceptedList, pc)
			accMu.Unlock()
		}
	}()
	defer func() {
		accMu.Lock()
		for _, pc := range acceptedList {
			pc.Close()
		}
		accMu.Unlock()
	}()

	viol := func(sig, detail string) {
		r.Violate(sigFor(c, sig), detail+"\nconfig "+c.Cfg.Cell(), c)
	}

	// ---- create the connections one after the other so that each is paired with its peer
	var recs []*connRec
	for _, p := range c.Conns {
		var cr *connRec
		switch p.Origin {
		case "accept":
			if p.Scenario == "close-in-onopen" {
				closeInOpen.Store("next", true)
			}
			pc, err := env.Dial()
			if err != nil {
				r.Inconclusive(fmt.Sprintf("case %d: dial: %v", c.Index, err))
				return
			}
			select {
			case cn := <-srv:
				cr = w.rec(cn)
				cr.peer = pc
			case <-time.After(10 * time.Second):
				r.Inconclusive(fmt.Sprintf("case %d: accept not observed", c.Index))
				return
			}
		case "add":
			accMu.Lock()
			before := len(acceptedList)
			accMu.Unlock()
			pc, e := net.DialTimeout(c.Cfg.Net, ln.Addr().String(), 5*time.Second)
			if e != nil {
				r.Inconclusive("dial harness listener: " + e.Error())
				return
			}
			var other net.Conn
			for i := 0; i < 1000 && other == nil; i++ {
				accMu.Lock()
				if c.Cfg.Net == "tcp" {
					other = accepted[pc.LocalAddr().String()]
				} else if len(acceptedList) > before {
					other = acceptedList[len(acceptedList)-1]
				}
				accMu.Unlock()
				if other == nil {
					time.Sleep(time.Millisecond)
				}
			}
			if other == nil {
				r.Inconclusive("harness accept not seen")
				return
			}
			if p.Scenario == "close-in-onopen" {
				closeInOpen.Store("next", true)
			}
			cn, e := env.G.AddConn(pc)
			if e != nil && p.Scenario != "close-in-onopen" {
				r.Inconclusive("AddConn: " + e.Error())
				return
			}
			select {
			case opened := <-srv:
				if cn == nil {
					cn = opened // closed inside the open callback: registration failed, AddConn returned the error
				}
			case <-time.After(10 * time.Second):
				if e != nil {
					r.Inconclusive("AddConn: " + e.Error())
					return
				}
				viol("add:no-open-notification", "AddConn returned a connection but no open notification was delivered")
				return
			}
			cr = w.rec(cn)
			cr.peer = other
		case "dial":
			type res struct {
				c   *nbio.Conn
				err error
			}
			ch := make(chan res, 4)
			accMu.Lock()
			before := len(acceptedList)
			accMu.Unlock()
			e := env.G.DialAsync(c.Cfg.Net, ln.Addr().String(), func(cn *nbio.Conn, err error) { ch <- res{cn, err} })
			if e != nil {
				r.Inconclusive("DialAsync: " + e.Error())
				return
			}
			select {
			case x := <-ch:
				if x.err != nil || x.c == nil {
					r.Inconclusive(fmt.Sprintf("DialAsync to a live listener failed: %v", x.err))
					return
				}
				cr = w.rec(x.c)
				var other net.Conn
				for i := 0; i < 2000 && other == nil; i++ {
					accMu.Lock()
					if c.Cfg.Net == "tcp" {
						other = accepted[x.c.LocalAddr().String()]
					} else if len(acceptedList) > before {
						other = acceptedList[len(acceptedList)-1]
					}
					accMu.Unlock()
					if other == nil {
						time.Sleep(time.Millisecond)
					}
				}
				if other == nil {
					viol("dial:success-without-connection", fmt.Sprintf("DialAsync reported success for %v but the listener never accepted a connection from that address", x.c.LocalAddr()))
					return
				}
				cr.peer = other
			case <-time.After(10 * time.Second):
				viol("dial:no-callback", "DialAsync to a live listener: callback not invoked within 10 s although the listener accepted")
				return
			}
		}
		cr.plan = p
		recs = append(recs, cr)
	}

	// ---- run the termination scenarios concurrently
	var wg sync.WaitGroup
	var vmu sync.Mutex
	var postViol []string
	addPost := func(sig, d string) {
		vmu.Lock()
		postViol = append(postViol, sig+"\x00"+d)
		vmu.Unlock()
	}
	for i, cr := range recs {
		wg.Add(1)
		go func(i int, cr *connRec) {
			defer wg.Done()
			prng := rand.New(rand.NewSource(c.Seed + int64(i)*7919))
			cn := cr.c
			if cr.plan.Traffic && cr.peer != nil {
				go func() {
					b := make([]byte, 1+prng.Intn(2000))
					for k := 0; k < 20; k++ {
						if _, err := cr.peer.Write(b); err != nil {
							return
						}
						time.Sleep(time.Duration(prng.Intn(300)) * time.Microsecond)
					}
				}()
				go func() {
					for k := 0; k < 20; k++ {
						if _, err := cn.Write(make([]byte, 1+prng.Intn(3000))); err != nil {
							return
						}
					}
				}()
				go func() { _, _ = io.Copy(io.Discard, cr.peer) }()
			}
			time.Sleep(time.Duration(prng.Intn(3000)) * time.Microsecond)
			switch cr.plan.Scenario {
			case "peer-close":
				cr.expectPeer = true
				cr.peer.Close()
			case "peer-reset":
				cr.expectPeer = true
				if tc, ok := cr.peer.(*net.TCPConn); ok {
					_ = tc.SetLinger(0)
				}
				cr.peer.Close()
			case "peer-close-in-handler":
				sg := &slowGate{entered: make(chan struct{}), release: make(chan struct{})}
				slow.Store(cn, sg)
				cr.expectPeer = true
				_, _ = cr.peer.Write([]byte("A"))
				select {
				case <-sg.entered:
					r.Count("hangup_while_handler_held", 1)
				case <-time.After(5 * time.Second):
				}
				_, _ = cr.peer.Write(make([]byte, 1+prng.Intn(3000)))
				cr.peer.Close()
				// long enough for the poller to dispatch the hang-up (when it is not the poller itself that is held)
				time.Sleep(time.Duration(1+prng.Intn(30)) * time.Millisecond)
				close(sg.release)
			case "app-close":
				// in half of the cases a job of the connection is still running when Close is called and
				// while the operations after Close are tried: the closed indication must not depend on
				// the job list being idle
				var held chan struct{}
				if prng.Intn(2) == 0 {
					held = make(chan struct{})
					started := make(chan struct{})
					hj := held
					go cn.Execute(func() { close(started); <-hj })
					select {
					case <-started:
						r.Count("closes_with_a_job_of_the_connection_still_running", 1)
					case <-time.After(2 * time.Second):
					}
				}
				_ = cn.Close()
				w.mu.Lock()
				cr.appClosed = true
				cr.causes = append(cr.causes, nil)
				cr.closeRet = outb.Tick()
				w.mu.Unlock()
				postClose(r, c, cn, addPost, prng)
				if held != nil {
					close(held)
				}
			case "app-close-error":
				e := fmt.Errorf("harness cause %d", i)
				w.mu.Lock()
				cr.causes = append(cr.causes, e)
				w.mu.Unlock()
				_ = cn.CloseWithError(e)
				w.mu.Lock()
				cr.appClosed = true
				cr.closeRet = outb.Tick()
				w.mu.Unlock()
				postClose(r, c, cn, addPost, prng)
			case "multi-close":
				var cw sync.WaitGroup
				start := make(chan struct{})
				for k := 0; k < cr.plan.Closers; k++ {
					var e error
					if k%2 == 1 {
						e = fmt.Errorf("harness cause %d.%d", i, k)
					}
					w.mu.Lock()
					cr.causes = append(cr.causes, e)
					w.mu.Unlock()
					cw.Add(1)
					go func(e error) {
						defer cw.Done()
						<-start
						if e == nil {
							_ = cn.Close()
						} else {
							_ = cn.CloseWithError(e)
						}
					}(e)
				}
				close(start)
				cw.Wait()
				w.mu.Lock()
				cr.appClosed = true
				cr.closeRet = outb.Tick()
				w.mu.Unlock()
				// idempotence: one more
				if err := cn.Close(); err != nil {
					addPost("close-not-idempotent", fmt.Sprintf("Close on an already closed connection returned %v", err))
				}
				postClose(r, c, cn, addPost, prng)
			case "deadline":
				_ = cn.SetReadDeadline(time.Now().Add(time.Duration(10+prng.Intn(40)) * time.Millisecond))
			case "overflow":
				// the peer does not read (unless Traffic started a reader: then overflow may not happen - treated below)
				buf := make([]byte, 32<<10)
				for k := 0; k < 600; k++ {
					if _, err := cn.Write(buf); err != nil {
						break
					}
				}
			case "backlog-reset", "backlog-close":
				// fill the socket until nbio has to cache (below the overflow bound), then the peer goes away:
				// the failure is met by the poller's flush, not by a Write call
				buf := make([]byte, 8<<10)
				for k := 0; k < 4000; k++ {
					if _, err := cn.Write(buf); err != nil {
						break
					}
					if bk := nbio.VerifBacklog(cn); bk.BufBytes > 0 {
						r.Count("backlog_then_peer_gone", 1)
						break
					}
				}
				cr.expectPeer = true
				if cr.plan.Scenario == "backlog-reset" {
					if tc, ok := cr.peer.(*net.TCPConn); ok {
						_ = tc.SetLinger(0)
					}
				}
				cr.peer.Close()
			case "write-error":
				// shim: the n-th write-side syscall on this connection fails with a fatal errno
				errno := []syscall.Errno{syscall.ECONNRESET, syscall.EPIPE, syscall.ETIMEDOUT}[prng.Intn(3)]
				pol := outb.NewPolicy(cn, "random", c.Cfg.Mode, c.Seed+int64(i))
				pol.FatalAt = int64(1 + prng.Intn(25))
				pol.FatalErr = errno
				outb.SetPolicy(cn.Hash(), pol)
				w.mu.Lock()
				cr.causes = append(cr.causes, errno)
				w.mu.Unlock()
				go func() { _, _ = io.Copy(io.Discard, cr.peer) }()
				for k := 0; k < 400; k++ {
					if _, err := cn.Write(make([]byte, 1+prng.Intn(6000))); err != nil {
						break
					}
					if cl, _ := cn.IsClosed(); cl {
						break
					}
					if k%8 == 7 {
						time.Sleep(200 * time.Microsecond)
					}
				}
				outb.DropPolicy(cn.Hash(), cn)
			case "close-in-onopen", "stop":
			}
		}(i, cr)
	}
	wg.Wait()
	for _, pv := range postViol {
		p := strings.SplitN(pv, "\x00", 2)
		viol(p[0], p[1])
	}
	if len(postViol) > 0 {
		return
	}

	// ---- quiescence for everything that must be closed before Stop
	mustClose := func(cr *connRec) bool {
		switch cr.plan.Scenario {
		case "stop":
			return false
		case "overflow", "write-error":
			cl, _ := cr.c.IsClosed()
			return cl
		}
		return true
	}
	stable := 0
	lastEv := atomic.LoadInt64(&progress)
	lastCPU := h.CPUTime()
	for {
		missing := 0
		w.mu.Lock()
		for _, cr := range recs {
			if mustClose(cr) && len(cr.closes) == 0 {
				missing++
			}
		}
		w.mu.Unlock()
		if missing == 0 {
			break
		}
		ev := atomic.LoadInt64(&progress)
		cpu := h.CPUTime()
		if ev == lastEv && cpu-lastCPU < 3*time.Millisecond {
			stable++
		} else {
			stable = 0
		}
		lastEv, lastCPU = ev, cpu
		if stable >= 60 {
			w.mu.Lock()
			for _, cr := range recs {
				if mustClose(cr) && len(cr.closes) == 0 {
					cl, ce := cr.c.IsClosed()
					w.mu.Unlock()
					if cl {
						viol(cr.plan.Scenario+":no-close-notification", fmt.Sprintf("connection (%s, fd %d) is closed (IsClosed error %v) but no close notification was delivered; stable for 3 s with idle CPU", cr.plan.Origin, cr.c.Hash(), ce))
					} else {
						viol(cr.plan.Scenario+":close-not-detected", fmt.Sprintf("connection (%s, fd %d) is still open 3 s (idle CPU, no events) after its %s", cr.plan.Origin, cr.c.Hash(), cr.plan.Scenario))
					}
					return
				}
			}
			w.mu.Unlock()
		}
		time.Sleep(50 * time.Millisecond)
	}

	// ---- a connection its owner closed before / while handing it to AddConn: whatever the
	// engine announces for it must be paired (decided at quiescence, before Stop)
	if rng.Intn(2) == 0 {
		mode := []string{"closed-first", "close-race"}[rng.Intn(2)]
		// the race is tried several times per case: the window between the moment the connection
		// gets its poller and the open notification is a few instructions wide
		reps := 1
		if mode == "close-race" {
			reps = 8
		}
		for rep := 0; rep < reps; rep++ {
			pc, e := net.DialTimeout(c.Cfg.Net, ln.Addr().String(), 5*time.Second)
			if e == nil {
				if nbc, e2 := nbio.NBConn(pc); e2 == nil {
					w.mu.Lock()
					opensBefore := 0
					for _, cr := range w.order {
						opensBefore += len(cr.opens)
					}
					w.mu.Unlock()
					var addErr error
					if mode == "closed-first" {
						_ = nbc.Close()
						_, addErr = env.G.AddConn(nbc)
					} else {
						done := make(chan struct{})
						d1, d2 := rng.Intn(60), rng.Intn(60)
						go func() {
							defer close(done)
							time.Sleep(time.Duration(d1) * time.Microsecond)
							_ = nbc.Close()
						}()
						time.Sleep(time.Duration(d2) * time.Microsecond)
						_, addErr = env.G.AddConn(nbc)
						<-done
					}
					// drain the open notification channel entry, if one was produced
					select {
					case <-srv:
					case <-time.After(20 * time.Millisecond):
					}
					stable := 0
					lastCPU := h.CPUTime()
					lastEv := int64(-1)
					for stable < 60 {
						w.mu.Lock()
						cr := w.conns[nbc]
						no, nc := 0, 0
						if cr != nil {
							no, nc = len(cr.opens), len(cr.closes)
						}
						w.mu.Unlock()
						if no == nc {
							break
						}
						ev := atomic.LoadInt64(&progress)
						cpu := h.CPUTime()
						if ev == lastEv && cpu-lastCPU < 3*time.Millisecond {
							stable++
						} else {
							stable = 0
						}
						lastEv, lastCPU = ev, cpu
						time.Sleep(50 * time.Millisecond)
					}
					w.mu.Lock()
					cr := w.conns[nbc]
					no, nc := 0, 0
					if cr != nil {
						no, nc = len(cr.opens), len(cr.closes)
						cr.plan = connPlan{Origin: "add", Scenario: "owner-close-around-add"}
						cr.appClosed = true
					}
					w.mu.Unlock()
					_ = opensBefore
					if no != nc {
						viol("owner-close-around-add:open-without-close", fmt.Sprintf("a connection its owner closed %s AddConn (AddConn returned %v) got %d open and %d close notifications; stable for 3 s with idle CPU", map[string]string{"closed-first": "before", "close-race": "while it called"}[mode], addErr, no, nc))
						return
					}
					r.Seen("owner_close_around_add", fmt.Sprintf("%s/refused=%v/announced=%v", mode, addErr != nil, no > 0))
				} else {
					pc.Close()
				}
			}
		}
	}

	// ---- descriptor number reuse: connection A is closed inside its own open handler, which is
	// still running when connection B is added and gets A's number; A's handler returns afterwards.
	// B is a live connection like any other: it must see its peer's close (exactly one close
	// notification) - whatever the engine still had to do for A must not touch B
	if c.Cfg.Net == "tcp" && rng.Intn(3) == 0 {
		func() {
			hg := &holdGate{closed: make(chan struct{}), release: make(chan struct{})}
			released := false
			rel := func() {
				if !released {
					released = true
					close(hg.release)
				}
			}
			defer rel()
			pa, e := net.DialTimeout("tcp", ln.Addr().String(), 5*time.Second)
			if e != nil {
				return
			}
			defer pa.Close()
			na, e := nbio.NBConn(pa)
			if e != nil {
				return
			}
			closeInOpen.Store("hold", hg)
			addDone := make(chan struct{})
			go func() {
				defer close(addDone)
				_, _ = env.G.AddConn(na)
			}()
			select {
			case <-hg.closed:
			case <-time.After(10 * time.Second):
				closeInOpen.Delete("hold")
				return
			}
			// make A's number the lowest free one, keep it occupied while B's socket is made
			var fillers []*os.File
			defer func() {
				for _, f := range fillers {
					f.Close()
				}
			}()
			var keep *os.File
			for i := 0; i < 64 && keep == nil; i++ {
				f, e := os.Open("/dev/null")
				if e != nil {
					break
				}
				switch fd := int(f.Fd()); {
				case fd == hg.fd:
					keep = f
				case fd < hg.fd:
					fillers = append(fillers, f)
				default:
					f.Close()
					i = 64 // the number is taken by somebody else
				}
			}
			if keep == nil {
				r.Count("fd_reuse_step_number_not_obtained", 1)
				return
			}
			pb, e := net.DialTimeout("tcp", ln.Addr().String(), 5*time.Second)
			if e != nil {
				keep.Close()
				return
			}
			var other net.Conn
			for i := 0; i < 1000 && other == nil; i++ {
				accMu.Lock()
				other = accepted[pb.LocalAddr().String()]
				accMu.Unlock()
				if other == nil {
					time.Sleep(time.Millisecond)
				}
			}
			keep.Close() // A's number is the lowest free one now: the duplicate made by NBConn gets it
			nb, e := nbio.NBConn(pb)
			if e != nil || other == nil {
				return
			}
			if nb.Hash() != hg.fd {
				r.Count("fd_reuse_step_number_not_obtained", 1)
				_ = nb.Close()
				return
			}
			if _, e := env.G.AddConn(nb); e != nil {
				return
			}
			select {
			case <-srv:
			case <-time.After(5 * time.Second):
			}
			rel() // A's open handler returns: the engine finishes A
			<-addDone
			select {
			case <-srv:
			case <-time.After(time.Second):
			}
			time.Sleep(2 * time.Millisecond)
			_, _ = other.Write([]byte("hello B"))
			other.Close()
			stable := 0
			lastCPU := h.CPUTime()
			lastEv := int64(-1)
			nc := 0
			for stable < 60 {
				w.mu.Lock()
				if cr := w.conns[nb]; cr != nil {
					nc = len(cr.closes)
					cr.plan = connPlan{Origin: "add", Scenario: "fd-reuse-after-close-in-onopen", Traffic: true}
					cr.expectPeer = true
				}
				if cr := w.conns[na]; cr != nil {
					cr.plan = connPlan{Origin: "add", Scenario: "close-in-onopen-held", Traffic: true}
					cr.appClosed = true
				}
				w.mu.Unlock()
				if nc > 0 {
					break
				}
				ev := atomic.LoadInt64(&progress)
				cpu := h.CPUTime()
				if ev == lastEv && cpu-lastCPU < 3*time.Millisecond {
					stable++
				} else {
					stable = 0
				}
				lastEv, lastCPU = ev, cpu
				time.Sleep(50 * time.Millisecond)
			}
			if nc == 0 {
				viol("fd-reuse-after-close-in-onopen:close-not-detected", fmt.Sprintf("connection A (fd %d) was closed inside its own open handler; while that handler was still running connection B was added and got the same descriptor number; after A's handler had returned B's peer sent data and closed: B never got a close notification (stable for 3 s with idle CPU) - what the engine did for A hit B's table entry", hg.fd))
				return
			}
			r.Count("fd_reuse_after_close_in_onopen_steps", 1)
		}()
	}

	// ---- a dialed UDP connection: one datagram is exchanged with a plain echo socket (the poller
	// has read from it), then it is ended by one cause: exactly one close notification with that cause
	if rng.Intn(2) == 0 {
		if pcn, e := net.ListenPacket("udp", "127.0.0.1:0"); e == nil {
			go func() {
				b := make([]byte, 2048)
				for {
					n, a, err := pcn.ReadFrom(b)
					if err != nil {
						return
					}
					_, _ = pcn.WriteTo(b[:n], a)
				}
			}()
			defer pcn.Close()
			dialed := make(chan *nbio.Conn, 1)
			got := make(chan struct{}, 4)
			var ucn atomic.Value
			prevData := env.OnData
			env.OnData = func(cn *nbio.Conn, b []byte) {
				atomic.AddInt64(&progress, 1)
				if x, _ := ucn.Load().(*nbio.Conn); x == cn {
					select {
					case got <- struct{}{}:
					default:
					}
				}
			}
			derr := env.G.DialAsync("udp", pcn.LocalAddr().String(), func(cn *nbio.Conn, err error) {
				if err == nil {
					ucn.Store(cn)
					dialed <- cn
				} else {
					dialed <- nil
				}
			})
			var cn *nbio.Conn
			if derr == nil {
				select {
				case cn = <-dialed:
				case <-time.After(5 * time.Second):
				}
			}
			echoed := false
			if cn != nil {
				_, _ = cn.Write([]byte("ping"))
				select {
				case <-got:
					echoed = true
				case <-time.After(2 * time.Second):
				}
			}
			if cn != nil && echoed {
				errMine := errors.New("c03: the owner of the udp connection says goodbye")
				cause := []string{"close", "close-error", "deadline"}[rng.Intn(3)]
				var want error
				switch cause {
				case "close":
					_ = cn.Close()
				case "close-error":
					want = errMine
					_ = cn.CloseWithError(errMine)
				case "deadline":
					want = nbio.ErrReadTimeout
					_ = cn.SetReadDeadline(time.Now().Add(30 * time.Millisecond))
				}
				// decided at quiescence
				stable := 0
				lastCPU := h.CPUTime()
				lastEv := int64(-1)
				for stable < 60 {
					if len(env.Closes(cn)) > 0 {
						break
					}
					ev := atomic.LoadInt64(&progress)
					cpu := h.CPUTime()
					if ev == lastEv && cpu-lastCPU < 3*time.Millisecond {
						stable++
					} else {
						stable = 0
					}
					lastEv, lastCPU = ev, cpu
					time.Sleep(50 * time.Millisecond)
				}
				time.Sleep(5 * time.Millisecond)
				ce := env.Closes(cn)
				w.mu.Lock()
				if cr := w.conns[cn]; cr != nil {
					cr.plan = connPlan{Origin: "dial", Scenario: "udp-" + cause}
					cr.appClosed = cause != "deadline"
				}
				w.mu.Unlock()
				switch {
				case len(ce) == 0:
					viol("udp-dialed:"+cause+":no-close-notification", fmt.Sprintf("a dialed UDP connection (one datagram exchanged) ended by %s got no close notification; stable for 3 s with idle CPU", cause))
					return
				case len(ce) > 1:
					viol("udp-dialed:"+cause+":close-notification-count", fmt.Sprintf("%d close notifications: %v", len(ce), ce))
					return
				case (want == nil && ce[0] != nil) || (want != nil && !errors.Is(ce[0], want)):
					viol("udp-dialed:"+cause+":wrong-close-error", fmt.Sprintf("a dialed UDP connection (one datagram exchanged) was ended by %s only, the notification reports %v (expected %v)", cause, ce[0], want))
					return
				}
				r.Seen("udp_dialed", cause)
			} else {
				r.Count("udp_dialed_setup_failed", 1)
				if cn != nil {
					_ = cn.Close()
				}
			}
			env.OnData = prevData
		}
	}

	// ---- dials with known outcomes
	var afterStop []func() bool
	if !runDials(r, c, env, viol, rng, &afterStop) {
		return
	}

	// ---- stop: the rest is closed by the engine; every notification is delivered before Stop returns
	stopDone := make(chan struct{})
	go func() { env.G.Stop(); close(stopDone) }()
	select {
	case <-stopDone:
		stopped = true
	case <-time.After(30 * time.Second):
		r.Inconclusive(fmt.Sprintf("case %d: Stop did not return within 30 s (C18 decides Stop)", c.Index))
		return
	}
	time.Sleep(2 * time.Millisecond)
	for _, f := range afterStop {
		if !f() {
			return
		}
	}
	w.mu.Lock()
	defer w.mu.Unlock()
	for _, cr := range w.order {
		sc := cr.plan.Scenario
		if sc == "" {
			sc = "untracked"
		}
		if len(cr.closes) != 1 {
			viol(sc+":close-notification-count", fmt.Sprintf("connection (%s, fd %d, scenario %s) received %d close notifications (errors %v), expected exactly one", cr.plan.Origin, cr.c.Hash(), sc, len(cr.closes), cr.closeErrs))
			return
		}
		if cr.plan.Origin != "dial" && cr.plan.Origin != "" {
			if len(cr.opens) != 1 {
				viol(sc+":open-notification-count", fmt.Sprintf("connection (%s) received %d open notifications", cr.plan.Origin, len(cr.opens)))
				return
			}
			if cr.closes[0] < cr.opens[0] {
				viol(sc+":close-before-open", fmt.Sprintf("close notification (t=%d) precedes the open notification (t=%d)", cr.closes[0], cr.opens[0]))
				return
			}
		}
		got := cr.closeErrs[0]
		bad := ""
		switch cr.plan.Scenario {
		case "write-error":
			// the write-buffer bound is a second legitimate first cause when the shim keeps refusing
			if got != nil && !errors.Is(got, cr.causes[0].(syscall.Errno)) && !errors.Is(got, nbio.ErrOverflow) {
				bad = fmt.Sprintf("the kernel failed a write with %v, the notification reports %v", cr.causes[0], got)
			}
		case "peer-close", "peer-reset", "backlog-reset", "backlog-close", "peer-close-in-handler":
			if !cr.plan.Traffic && !isPeerClass(got) {
				bad = fmt.Sprintf("peer closed the connection, the notification reports %v (expected EOF / reset class)", got)
			}
		case "app-close":
			if !cr.plan.Traffic && got != nil {
				bad = fmt.Sprintf("Close() was the only cause, the notification reports %v", got)
			}
		case "app-close-error":
			if !cr.plan.Traffic && got != cr.causes[0] {
				bad = fmt.Sprintf("CloseWithError(%v) was the only cause, the notification reports %v", cr.causes[0], got)
			}
		case "multi-close":
			ok := false
			for _, e := range cr.causes {
				if e == got {
					ok = true
				}
			}
			if !ok && !cr.plan.Traffic {
				bad = fmt.Sprintf("notification reports %v which none of the %d concurrent closers passed", got, len(cr.causes))
			}
		case "deadline":
			if !cr.plan.Traffic && !errors.Is(got, nbio.ErrReadTimeout) {
				bad = fmt.Sprintf("read deadline was the only cause, the notification reports %v", got)
			}
		case "overflow":
			if !errors.Is(got, nbio.ErrOverflow) && !cr.plan.Traffic {
				// overflow did not happen (everything fitted): closed by Stop
				if got != nil {
					bad = fmt.Sprintf("writes until failure on a non-reading peer: the notification reports %v (expected the overflow error, or nil when closed by Stop)", got)
				}
			}
		}
		if bad != "" {
			viol(cr.plan.Scenario+":wrong-close-error", bad)
			return
		}
		r.Seen("cells", fmt.Sprintf("%s/%s/%s", c.Cfg.Mode, cr.plan.Origin, cr.plan.Scenario))
		if cr.plan.Scenario == "multi-close" {
			r.Seen("multi_close_winner", fmt.Sprintf("%d-closers/winner-nil=%v", cr.plan.Closers, got == nil))
		}
	}
	r.Count("connections_checked", int64(len(w.order)))
	r.Nontrivial(fmt.Sprint(c.Index))
}

// postClose checks the closed indication of every operation after Close
// returned and that the freed descriptor number is not written to.
func postClose(r *h.Run, c caseT, cn *nbio.Conn, addPost func(sig, d string), prng *rand.Rand) {
	fd := cn.Hash()
	// occupy the freed descriptor number with a victim socket
	var victimPeer int = -1
	var keep []int
	for k := 0; k < 4 && victimPeer < 0; k++ {
		sp, err := syscall.Socketpair(syscall.AF_UNIX, syscall.SOCK_STREAM|syscall.SOCK_NONBLOCK, 0)
		if err != nil {
			break
		}
		switch fd {
		case sp[0]:
			victimPeer = sp[1]
			keep = append(keep, sp[0])
		case sp[1]:
			victimPeer = sp[0]
			keep = append(keep, sp[1])
		default:
			keep = append(keep, sp[0], sp[1])
		}
	}
	defer func() {
		for _, f := range keep {
			syscall.Close(f)
		}
		if victimPeer >= 0 {
			syscall.Close(victimPeer)
		}
	}()
	if n, err := cn.Write([]byte("after-close")); err == nil {
		addPost("write-after-close-accepted", fmt.Sprintf("Write after Close returned (%d, nil)", n))
	}
	if n, err := cn.Writev([][]byte{[]byte("after"), []byte("close")}); err == nil {
		addPost("writev-after-close-accepted", fmt.Sprintf("Writev after Close returned (%d, nil)", n))
	}
	if f, err := os.CreateTemp("", "vc03f"); err == nil {
		_, _ = f.Write([]byte("file-after-close"))
		_, _ = f.Seek(0, io.SeekStart)
		if n, err := cn.Sendfile(f, 0); err == nil {
			addPost("sendfile-after-close-accepted", fmt.Sprintf("Sendfile after Close returned (%d, nil)", n))
		}
		f.Close()
		os.Remove(f.Name())
	}
	var ran int32
	if cn.Execute(func() { atomic.StoreInt32(&ran, 1) }) {
		addPost("execute-after-close-true", "Execute after Close returned true")
	}
	time.Sleep(time.Millisecond)
	if atomic.LoadInt32(&ran) == 1 {
		addPost("job-ran-after-close", "a job passed to Execute after Close returned was run")
	}
	if victimPeer >= 0 {
		r.Count("fd_reuse_victims_armed", 1)
		b := make([]byte, 64)
		n, _ := syscall.Read(victimPeer, b)
		if n > 0 {
			addPost("write-reached-reused-descriptor", fmt.Sprintf("after Close returned the descriptor number %d was re-occupied by a victim socket; an operation on the closed connection wrote %q to it", fd, b[:n]))
		}
	}
}

// runDials exercises DialAsync against harness listeners with known outcomes.
func runDials(r *h.Run, c caseT, env *outb.Env, viol func(sig, d string), rng *rand.Rand, afterStop *[]func() bool) bool {
	for _, d := range c.Dials {
		type res struct {
			c   *nbio.Conn
			err error
			t   int64
		}
		var mu sync.Mutex
		var results []res
		cb := func(cn *nbio.Conn, err error) {
			mu.Lock()
			results = append(results, res{cn, err, outb.Tick()})
			mu.Unlock()
			atomic.AddInt64(&progress, 1)
		}
		get := func() []res {
			mu.Lock()
			defer mu.Unlock()
			return append([]res(nil), results...)
		}
		waitStable := func(max int) {
			// the outcome is final when it arrived; wait for a late duplicate / late arrival by quiescence
			stable := 0
			last := -1
			lastCPU := h.CPUTime()
			for i := 0; i < max; i++ {
				n := len(get())
				cpu := h.CPUTime()
				if n == last && cpu-lastCPU < 3*time.Millisecond {
					stable++
				} else {
					stable = 0
				}
				last, lastCPU = n, cpu
				if n >= 1 && stable >= 4 {
					return
				}
				if stable >= 60 {
					return
				}
				time.Sleep(50 * time.Millisecond)
			}
		}
		switch d.Kind {
		case "refused":
			l, err := net.Listen("tcp", "127.0.0.1:0")
			if err != nil {
				continue
			}
			addr := l.Addr().String()
			l.Close()
			serr := env.G.DialAsync("tcp", addr, cb)
			waitStable(100)
			rs := get()
			if serr != nil {
				if len(rs) > 0 {
					viol("dial:refused:reported-twice", fmt.Sprintf("DialAsync returned %v and also invoked the callback %d times", serr, len(rs)))
					return false
				}
				r.Seen("dial_outcomes", "refused/sync-error")
				continue
			}
			if len(rs) == 0 {
				viol("dial:refused:no-outcome", "DialAsync to a closed port returned nil and never invoked its callback (stable 3 s, idle CPU)")
				return false
			}
			if len(rs) > 1 {
				viol("dial:refused:reported-twice", fmt.Sprintf("callback invoked %d times", len(rs)))
				return false
			}
			if rs[0].err == nil {
				viol("dial:refused:reported-success", "DialAsync to a port nobody listens on invoked its callback with a nil error (connection was never established)")
				return false
			}
			r.Seen("dial_outcomes", "refused/callback-error")
		case "timeout":
			// a listener whose accept queue is full: further SYNs are dropped
			fd, err := syscall.Socket(syscall.AF_INET, syscall.SOCK_STREAM, 0)
			if err != nil {
				continue
			}
			_ = syscall.SetsockoptInt(fd, syscall.SOL_SOCKET, syscall.SO_REUSEADDR, 1)
			if err := syscall.Bind(fd, &syscall.SockaddrInet4{Addr: [4]byte{127, 0, 0, 1}}); err != nil {
				syscall.Close(fd)
				continue
			}
			_ = syscall.Listen(fd, 0)
			sa, _ := syscall.Getsockname(fd)
			port := sa.(*syscall.SockaddrInet4).Port
			addr := fmt.Sprintf("127.0.0.1:%d", port)
			var fill []net.Conn
			for k := 0; k < 4; k++ {
				if fc, err := net.DialTimeout("tcp", addr, 300*time.Millisecond); err == nil {
					fill = append(fill, fc)
				}
			}
			// is the queue really full? a plain dial must time out
			if pc, err := net.DialTimeout("tcp", addr, 300*time.Millisecond); err == nil {
				pc.Close()
				for _, fc := range fill {
					fc.Close()
				}
				syscall.Close(fd)
				r.Count("dial_timeout_setup_failed", 1)
				continue
			}
			serr := env.G.DialAsyncTimeout("tcp", addr, 150*time.Millisecond, cb)
			waitStable(200)
			rs := get()
			for _, fc := range fill {
				fc.Close()
			}
			syscall.Close(fd)
			if serr != nil {
				r.Seen("dial_outcomes", "timeout/sync-error")
				continue
			}
			if len(rs) == 0 {
				viol("dial:timeout:no-outcome", "DialAsyncTimeout(150ms) to a listener with a full accept queue never invoked its callback (stable 3 s, idle CPU)")
				return false
			}
			if len(rs) > 1 {
				viol("dial:timeout:reported-twice", fmt.Sprintf("callback invoked %d times", len(rs)))
				return false
			}
			if rs[0].err == nil {
				viol("dial:timeout:reported-success", "DialAsyncTimeout to a listener that never completed the handshake reported success")
				return false
			}
			r.Seen("dial_outcomes", "timeout/callback-error")
		case "unix-missing":
			serr := env.G.DialAsync("unix", "/nonexistent/verif.sock", cb)
			waitStable(100)
			rs := get()
			if serr == nil && len(rs) == 0 {
				viol("dial:unix-missing:no-outcome", "DialAsync to a missing unix path returned nil and never invoked its callback")
				return false
			}
			if (serr != nil && len(rs) > 0) || len(rs) > 1 {
				viol("dial:unix-missing:reported-twice", fmt.Sprintf("returned %v and invoked the callback %d times", serr, len(rs)))
				return false
			}
			if serr == nil && rs[0].err == nil {
				viol("dial:unix-missing:reported-success", "dial to a missing unix path reported success")
				return false
			}
			r.Seen("dial_outcomes", "unix-missing/error")
		case "unix-backlog-full":
			// a unix listener whose accept queue is full refuses connect() at once with EAGAIN:
			// nothing is queued, the socket stays unconnected - success may be reported only
			// if the listener really got a connection beyond the fillers
			dir, err := os.MkdirTemp("", "vc03u")
			if err != nil {
				continue
			}
			path := dir + "/full.sock"
			lfd, err := syscall.Socket(syscall.AF_UNIX, syscall.SOCK_STREAM|syscall.SOCK_NONBLOCK, 0)
			if err != nil {
				os.RemoveAll(dir)
				continue
			}
			cleanup := func(fill []int) {
				for _, f := range fill {
					syscall.Close(f)
				}
				syscall.Close(lfd)
				os.RemoveAll(dir)
			}
			if err := syscall.Bind(lfd, &syscall.SockaddrUnix{Name: path}); err != nil {
				cleanup(nil)
				continue
			}
			_ = syscall.Listen(lfd, 0)
			var fill []int
			full := false
			for k := 0; k < 8 && !full; k++ {
				f, err := syscall.Socket(syscall.AF_UNIX, syscall.SOCK_STREAM|syscall.SOCK_NONBLOCK, 0)
				if err != nil {
					break
				}
				err = syscall.Connect(f, &syscall.SockaddrUnix{Name: path})
				if err == syscall.EAGAIN {
					full = true
					syscall.Close(f)
					break
				}
				fill = append(fill, f)
			}
			if !full {
				cleanup(fill)
				r.Count("dial_unix_backlog_setup_failed", 1)
				continue
			}
			serr := env.G.DialAsyncTimeout("unix", path, 150*time.Millisecond, cb)
			waitStable(100)
			rs := get()
			// what did the listener really get?
			accepted := 0
			for {
				nfd, _, err := syscall.Accept(lfd)
				if err != nil {
					break
				}
				accepted++
				syscall.Close(nfd)
			}
			nFill := len(fill)
			cleanup(fill)
			if (serr != nil && len(rs) > 0) || len(rs) > 1 {
				viol("dial:unix-backlog-full:reported-twice", fmt.Sprintf("DialAsyncTimeout returned %v and invoked the callback %d times", serr, len(rs)))
				return false
			}
			if serr == nil && len(rs) == 0 {
				viol("dial:unix-backlog-full:no-outcome", "DialAsyncTimeout(150ms) to a unix listener with a full accept queue returned nil and never invoked its callback (stable 3 s, idle CPU)")
				return false
			}
			if serr == nil && rs[0].err == nil && accepted <= nFill {
				viol("dial:unix-backlog-full:reported-success", fmt.Sprintf("the dial callback reported success, but the listener (accept queue full, connect() answers EAGAIN) only ever got its %d filler connection(s): accepted %d", nFill, accepted))
				return false
			}
			r.Seen("dial_outcomes", "unix-backlog-full/"+map[bool]string{true: "sync-error", false: "callback"}[serr != nil])
		case "pending-stop":
			// a dial that is still connecting (accept queue full) when the engine stops: the outcome
			// must be reported exactly once and must not be success
			fd, err := syscall.Socket(syscall.AF_INET, syscall.SOCK_STREAM, 0)
			if err != nil {
				continue
			}
			if err := syscall.Bind(fd, &syscall.SockaddrInet4{Addr: [4]byte{127, 0, 0, 1}}); err != nil {
				syscall.Close(fd)
				continue
			}
			_ = syscall.Listen(fd, 0)
			sa, _ := syscall.Getsockname(fd)
			addr := fmt.Sprintf("127.0.0.1:%d", sa.(*syscall.SockaddrInet4).Port)
			var fill []net.Conn
			for k := 0; k < 4; k++ {
				if fc, err := net.DialTimeout("tcp", addr, 300*time.Millisecond); err == nil {
					fill = append(fill, fc)
				}
			}
			release := func() {
				for _, fc := range fill {
					fc.Close()
				}
				syscall.Close(fd)
			}
			if pc, err := net.DialTimeout("tcp", addr, 300*time.Millisecond); err == nil {
				pc.Close()
				release()
				r.Count("dial_timeout_setup_failed", 1)
				continue
			}
			to := time.Duration(0)
			if rng.Intn(2) == 0 {
				to = time.Hour
			}
			serr := env.G.DialAsyncTimeout("tcp", addr, to, cb)
			if serr != nil {
				release()
				continue
			}
			time.Sleep(20 * time.Millisecond)
			if len(get()) != 0 {
				// it did not stay pending (kernel let it through or failed it): nothing to decide here
				release()
				continue
			}
			*afterStop = append(*afterStop, func() bool {
				defer release()
				waitStable(100)
				rs := get()
				if len(rs) == 0 {
					viol("dial:pending-closed:no-outcome", "a DialAsync still connecting when the engine was stopped never invoked its callback (stable 3 s after Stop returned)")
					return false
				}
				if len(rs) > 1 {
					viol("dial:pending-closed:reported-twice", fmt.Sprintf("callback invoked %d times", len(rs)))
					return false
				}
				if rs[0].err == nil {
					viol("dial:pending-closed:reported-success", "a DialAsync that was still connecting (accept queue full) when the engine stopped invoked its callback with a nil error: the connection was never established")
					return false
				}
				r.Seen("dial_outcomes", "pending-closed/callback-error")
				return true
			})
		case "accepted":
			// covered by the "dial" origin connections; here: success must be reported exactly once
			l, err := net.Listen("tcp", "127.0.0.1:0")
			if err != nil {
				continue
			}
			accCh := make(chan net.Conn, 4)
			go func() {
				for {
					pc, err := l.Accept()
					if err != nil {
						return
					}
					accCh <- pc
				}
			}()
			serr := env.G.DialAsync("tcp", l.Addr().String(), cb)
			waitStable(100)
			rs := get()
			l.Close()
			if serr != nil {
				continue
			}
			if len(rs) != 1 {
				viol("dial:accepted:callback-count", fmt.Sprintf("callback invoked %d times for a dial the listener accepted", len(rs)))
				return false
			}
			if rs[0].err != nil {
				r.Seen("dial_outcomes", "accepted/reported-error:"+rs[0].err.Error())
			} else {
				select {
				case pc := <-accCh:
					pc.Close()
					r.Seen("dial_outcomes", "accepted/success")
				case <-time.After(2 * time.Second):
					viol("dial:success-without-connection", "callback reported success but the listener accepted nothing")
					return false
				}
			}
		}
	}
	return true
}

func guarded(r *h.Run, c caseT) {
	v := h.Guard(5*time.Minute, func() int64 { return atomic.LoadInt64(&progress) }, func() { runCase(r, c) })
	switch v.Kind {
	case "":
		return
	case "spin":
		r.Violate(sigFor(c, "spin-no-progress"), v.Detail, c)
	case "deadlock":
		r.Violate(sigFor(c, "deadlock-no-progress"), v.Detail, c)
	default:
		r.Inconclusive(fmt.Sprintf("case %d: %s", c.Index, v.Detail))
	}
	r.Inconclusive(fmt.Sprintf("shard stopped after case %d (process state unrecoverable)", c.Index))
	r.Finish()
	os.Exit(0)
}

func main() {
	r := h.Start("C03")
	defer r.Finish()
	if r.Phase == "shim" {
		outb.InstallShim()
	}
	if r.Replay != "" {
		var c caseT
		if err := r.ReplayCase(&c); err != nil {
			fmt.Println("replay:", err)
			return
		}
		guarded(r, c)
		return
	}
	n := r.N(96, 1440)
	for i := 0; i < n; i++ {
		if !r.Mine(i) {
			continue
		}
		c := genCase(r, r.Phase, i)
		r.Begin(c)
		t0 := time.Now()
		guarded(r, c)
		if d := time.Since(t0); d > 5*time.Second {
			fmt.Printf("slow case %d: %v %+v\n", c.Index, d, c.Cfg)
		}
		if i < 2 {
			r.Sample(c)
		}
	}
}
