// C04 - flush liveness. A backlog is created from a chosen origin (inside
// OnOpen, in the registration gap, inside OnData, from a foreign goroutine, a
// timer callback, or another connection's OnClose) while the peer is not
// reading; then the peer reads continuously and no further application call is
// made. The run ends either complete (content checked with the C01 oracle) or
// in the stable write stuck-state, which is the violation.
package main

import (
	"fmt"
	"math/rand"
	"net"
	"os"
	"sync"
	"sync/atomic"
	"time"

	"github.com/lesismal/nbio"

	"verif/internal/h"
	"verif/internal/outb"
)

type caseT struct {
	Index  int       `json:"index"`
	Cfg    outb.Cfg  `json:"cfg"`
	Origin string    `json:"origin"`
	Ops    []outb.Op `json:"ops"`
	Shim   string    `json:"shim,omitempty"`
	Gate   bool      `json:"gate,omitempty"` // shim: refuse everything (EAGAIN) until the peer starts reading
	Delay  int       `json:"start_delay_ms"` // how long after the last call the peer starts reading
	Chatty bool      `json:"peer_sends_when_it_starts_reading,omitempty"`
	Seed   int64     `json:"seed"`
}

var nets = []string{"tcp", "unix"}
var modes = []string{"LT", "ET", "ONESHOT"}
var origins = []string{"onopen", "regap", "ondata", "foreign", "timer", "onclose-other", "dialcb"}

// modeTag names the epoll mode of a case in signatures and cells.
func modeTag(c caseT) string {
	if c.Cfg.Async {
		return c.Cfg.Mode + "-async"
	}
	return c.Cfg.Mode
}

func genCase(r *h.Run, phase string, idx int) caseT {
	rng := r.Rand("c04-"+phase, idx)
	c := caseT{Index: idx, Seed: rng.Int63()}
	c.Cfg.Net = nets[idx%2]
	c.Cfg.Mode = modes[(idx/2)%3]
	c.Origin = origins[(idx/6)%len(origins)]
	c.Cfg.NPoller = 1
	// asynchronous reading (ET and ONESHOT): the reading job re-arms the one-shot event itself, and
	// writes issued in data callbacks run on its goroutine
	c.Cfg.Async = c.Cfg.Mode != "LT" && (idx/(6*len(origins)))%2 == 1
	// the peer sends a byte at the moment it starts draining, while the poller is held by another
	// connection's handler: the write event arrives together with a read event (not for origin
	// ondata, whose data callback issues the writes)
	c.Chatty = c.Origin != "ondata" && phase != "shim" && rng.Intn(3) == 0
	if rng.Intn(2) == 0 {
		c.Cfg.SndBuf = 8192
		c.Cfg.RcvBuf = 8192
	}
	shape := rng.Intn(3) // buffers | sendfile | mixed
	total := 0
	// enough to overflow the socket buffers so that a backlog forms
	want := 5<<20 + rng.Intn(3<<20)
	if phase == "shim" {
		want = 200000 + rng.Intn(400000)
	} else if c.Cfg.RcvBuf > 0 {
		// tiny TCP windows move ~100 KiB/s on loopback: still far above the buffers
		want = 300000 + rng.Intn(300000)
	}
	for total < want {
		var op outb.Op
		sz := 16 + rng.Intn(700000)
		if want < 1<<20 {
			sz = 16 + rng.Intn(150000)
		}
		if phase == "shim" {
			sz = 16 + rng.Intn(80000)
		}
		k := rng.Intn(3)
		switch {
		case shape == 1 || (shape == 2 && k == 0):
			op = outb.Op{Kind: "sendfile", Sizes: []int{sz}, Off: rng.Intn(2) * rng.Intn(3000)}
		case shape == 2 && k == 1:
			n := 1 + rng.Intn(5)
			var ss []int
			for i := 0; i < n; i++ {
				ss = append(ss, sz/n)
			}
			op = outb.Op{Kind: "writev", Sizes: ss}
		default:
			op = outb.Op{Kind: "write", Sizes: []int{sz}}
		}
		if op.Total() == 0 {
			continue
		}
		total += op.Total()
		c.Ops = append(c.Ops, op)
	}
	if c.Origin == "ondata" || c.Origin == "timer" || c.Origin == "onclose-other" || c.Origin == "onopen" || c.Origin == "regap" {
		// callbacks run on engine goroutines: keep file creation out of them
		// unless the shape asks for files explicitly
	}
	c.Delay = []int{0, 5, 50}[rng.Intn(3)]
	if rng.Intn(4) == 0 {
		// a file with nothing left to send queued in the middle of (or behind) the backlog
		e := outb.Op{Kind: "sendfile-empty", Off: rng.Intn(2) * rng.Intn(3000)}
		at := 1 + rng.Intn(len(c.Ops))
		c.Ops = append(c.Ops[:at], append([]outb.Op{e}, c.Ops[at:]...)...)
	}
	if phase == "shim" {
		c.Shim = []string{"random", "tiny", "pass", "eintr-first"}[rng.Intn(4)]
		if rng.Intn(2) == 0 {
			c.Gate = true
		}
		if c.Shim == "tiny" {
			for i := range c.Ops {
				for j := range c.Ops[i].Sizes {
					c.Ops[i].Sizes[j] = 16 + c.Ops[i].Sizes[j]%2000
				}
			}
		}
	}
	return c
}

var progress int64

func runCase(r *h.Run, c caseT) {
	r.Eval(1)
	env, err := outb.NewEnv(c.Cfg)
	if err != nil {
		r.Inconclusive(fmt.Sprintf("case %d: engine start: %v", c.Index, err))
		return
	}
	defer env.Stop()

	var mu sync.Mutex
	var calls []outb.Call
	opsDone := make(chan struct{})
	var once sync.Once
	var pol *outb.Policy
	doOps := func(cn *nbio.Conn) {
		once.Do(func() {
			for i, op := range c.Ops {
				cl := outb.DoOp(cn, op, 0, i)
				mu.Lock()
				calls = append(calls, cl)
				mu.Unlock()
				atomic.AddInt64(&progress, 1)
				if cl.Open {
					break
				}
			}
			close(opsDone)
		})
	}
	prep := func(cn *nbio.Conn) {
		if c.Cfg.SndBuf > 0 {
			_ = cn.SetWriteBuffer(c.Cfg.SndBuf)
		}
		if c.Shim != "" {
			pol = outb.NewPolicy(cn, c.Shim, c.Cfg.Mode, c.Seed)
			if c.Gate {
				atomic.StoreInt32(&pol.Gate, 1)
			}
			outb.SetPolicy(cn.Hash(), pol)
		}
	}

	srv := make(chan *nbio.Conn, 8)
	var subject *nbio.Conn
	var nOpen int32
	env.OnOpen = func(cn *nbio.Conn) {
		k := atomic.AddInt32(&nOpen, 1)
		if k == 1 && c.Origin != "dialcb" {
			subject = cn
			prep(cn)
			if c.Origin == "onopen" {
				doOps(cn)
			}
		}
		srv <- cn
	}
	if c.Origin == "regap" {
		nbio.VerifSetPoint(func(name string, cn *nbio.Conn) {
			if name == "addConn.afterOnOpen" && cn == subject {
				// a foreign goroutine writes between the open callback and the
				// epoll registration
				done := make(chan struct{})
				go func() { doOps(cn); close(done) }()
				<-done
			}
		})
		defer nbio.VerifSetPoint(nil)
	}
	var echo sync.Map // control connection: echo
	env.OnData = func(cn *nbio.Conn, b []byte) {
		if _, ok := echo.Load(cn); ok {
			if len(b) == 1 && b[0] == 0xEE {
				// the (single) poller is held here for a while: what happens to the subject meanwhile
				// - its peer sends a byte and starts draining - is reported in one epoll event
				time.Sleep(30 * time.Millisecond)
				return
			}
			_, _ = cn.Write(append([]byte(nil), b...))
			return
		}
		if cn == subject && c.Origin == "ondata" {
			doOps(cn)
		}
	}

	var peer net.Conn
	var cn *nbio.Conn
	if c.Origin == "dialcb" {
		// the subject is a connection the engine dials; the backlog is created
		// inside the dial callback, the peer is what a plain listener accepts
		peer, cn, err = dialSubject(env, c, func(x *nbio.Conn) {
			subject = x
			prep(x)
			doOps(x)
		})
		if err != nil {
			r.Inconclusive(fmt.Sprintf("case %d: %v", c.Index, err))
			return
		}
	} else {
		peer, err = env.Dial()
		if err != nil {
			r.Inconclusive(fmt.Sprintf("case %d: dial: %v", c.Index, err))
			return
		}
		select {
		case cn = <-srv:
		case <-time.After(10 * time.Second):
			peer.Close()
			r.Inconclusive(fmt.Sprintf("case %d: accept not observed", c.Index))
			return
		}
	}
	defer peer.Close()
	fd := cn.Hash()
	defer outb.DropPolicy(fd, cn)

	// control connection on the same (single) poller
	ctl, err := env.Dial()
	if err != nil {
		r.Inconclusive(fmt.Sprintf("case %d: control dial: %v", c.Index, err))
		return
	}
	defer ctl.Close()
	var ctlSrv *nbio.Conn
	select {
	case ctlSrv = <-srv:
		echo.Store(ctlSrv, true)
	case <-time.After(10 * time.Second):
		r.Inconclusive(fmt.Sprintf("case %d: control accept not observed", c.Index))
		return
	}
	pingOK := func() bool {
		_ = ctl.SetDeadline(time.Now().Add(2 * time.Second))
		if _, err := ctl.Write([]byte("ping")); err != nil {
			return false
		}
		b := make([]byte, 4)
		n := 0
		for n < 4 {
			k, err := ctl.Read(b[n:])
			if err != nil {
				return false
			}
			n += k
		}
		return true
	}

	switch c.Origin {
	case "foreign":
		go doOps(cn)
	case "ondata":
		_, _ = peer.Write([]byte{1})
	case "timer":
		env.G.AfterFunc(time.Millisecond, func() { doOps(cn) })
	case "onclose-other":
		other, err := env.Dial()
		if err != nil {
			r.Inconclusive(fmt.Sprintf("case %d: dial other: %v", c.Index, err))
			return
		}
		var otherSrv *nbio.Conn
		select {
		case otherSrv = <-srv:
		case <-time.After(10 * time.Second):
			r.Inconclusive(fmt.Sprintf("case %d: accept(other) not observed", c.Index))
			return
		}
		// the engine's close callback of the other connection writes to the subject
		env.OnCloseHook = func(x *nbio.Conn, _ error) {
			if x == otherSrv {
				doOps(cn)
			}
		}
		_ = other.Close()
	}
	select {
	case <-opsDone:
	case <-time.After(60 * time.Second):
		r.Inconclusive(fmt.Sprintf("case %d: writes from origin %s did not finish", c.Index, c.Origin))
		return
	}
	mu.Lock()
	cs := append([]outb.Call(nil), calls...)
	mu.Unlock()
	expected := 0
	for i := range cs {
		if !cs[i].Open {
			expected += cs[i].Accepted()
		}
	}
	bk0 := nbio.VerifBacklog(cn)
	backlog0 := int64(bk0.BufBytes) + bk0.FileBytes

	// ---- the peer starts reading and never stops; no further application call
	time.Sleep(time.Duration(c.Delay) * time.Millisecond)
	if pol != nil && c.Gate {
		atomic.StoreInt32(&pol.Gate, 0)
		// the kernel "makes room": in LT the armed interest fires by itself; a
		// ONESHOT/LT implementation must have armed EPOLLOUT for this to matter
	}
	if c.Chatty {
		// readability and writability of the subject become true while the poller is busy elsewhere
		_, _ = ctl.Write([]byte{0xEE})
		time.Sleep(3 * time.Millisecond)
		_, _ = peer.Write([]byte{7})
		r.Count("cases_with_a_peer_that_sends_while_it_starts_draining", 1)
	}
	var got []byte
	var gotMu sync.Mutex
	var gotN int64
	readerDone := make(chan struct{})
	go func() {
		defer close(readerDone)
		buf := make([]byte, 64<<10)
		for {
			n, err := peer.Read(buf)
			if n > 0 {
				gotMu.Lock()
				got = append(got, buf[:n]...)
				gotMu.Unlock()
				atomic.AddInt64(&gotN, int64(n))
				atomic.AddInt64(&progress, int64(n))
			}
			if err != nil {
				return
			}
		}
	}()

	closedNow := func() bool { cl, _ := cn.IsClosed(); return cl }
	stable := 0
	pings := 0
	var lastGot int64 = -1
	var lastBk nbio.VerifBacklogInfo
	lastCPU := h.CPUTime()
	deadline := time.Now().Add(120 * time.Second)
	complete, stalled, closed := false, false, false
	var stallInfo string
	for {
		g := atomic.LoadInt64(&gotN)
		if closedNow() {
			closed = true
			break
		}
		if g >= int64(expected) {
			complete = true
			break
		}
		bk := nbio.VerifBacklog(cn)
		cpu := h.CPUTime()
		if g == lastGot && bk.BufBytes == lastBk.BufBytes && bk.FileBytes == lastBk.FileBytes && bk.Entries == lastBk.Entries && cpu-lastCPU < 3*time.Millisecond {
			stable++
			if stable%10 == 0 {
				// the poller must demonstrably be alive during the window
				if pingOK() {
					pings++
				}
			}
		} else {
			stable = 0
			pings = 0
		}
		lastGot, lastBk, lastCPU = g, bk, cpu
		if stable >= 60 {
			outq, _ := outb.OutQ(fd)
			inq, _ := outb.InQ(outb.FdOf(peer))
			wr, _ := outb.Writable(fd)
			stallInfo = fmt.Sprintf("received %d of %d accepted bytes; backlog buf=%d file=%d entries=%d writeArmed=%v; poll(POLLOUT)=%v SIOCOUTQ=%d peer FIONREAD=%d; no progress over %d samples (3 s) with idle CPU; control connection on the same poller answered %d/%d pings during the window", g, expected, bk.BufBytes, bk.FileBytes, bk.Entries, bk.WriteArmed, wr, outq, inq, stable, pings, stable/10)
			if (bk.BufBytes > 0 || bk.FileBytes > 0) && wr && inq == 0 && pings >= 4 {
				stalled = true
			} else if bk.BufBytes == 0 && bk.FileBytes == 0 {
				complete = true // nothing queued: missing bytes are a C01 matter, CheckStream reports them
			} else {
				fmt.Printf("=== case %d: predicate does not hold: %s\nnbio error log: %q\n%s\n", c.Index, stallInfo, outb.Log.Take(), h.Stacks())
				r.Inconclusive(fmt.Sprintf("case %d: no progress but the stuck-state predicate does not hold: %s", c.Index, stallInfo))
				return
			}
			break
		}
		if time.Now().After(deadline) {
			r.Inconclusive(fmt.Sprintf("case %d: watchdog: neither complete nor stable", c.Index))
			return
		}
		time.Sleep(50 * time.Millisecond)
	}
	_ = cn.Close()
	select {
	case <-readerDone:
	case <-time.After(10 * time.Second):
		peer.Close()
		<-readerDone
	}
	gotMu.Lock()
	stream := got
	gotMu.Unlock()

	cell := fmt.Sprintf("%s/%s/%s", c.Cfg.Net, modeTag(c), c.Origin)
	if stalled {
		r.Violate(fmt.Sprintf("c04:%s:%s:%s:stall", c.Cfg.Net, modeTag(c), c.Origin), "backlog never drains although the peer keeps reading and the socket is writable: "+stallInfo, c)
		return
	}
	if closed && !complete {
		r.Inconclusive(fmt.Sprintf("case %d (%s): connection closed before delivery completed: %v", c.Index, cell, env.Closes(cn)))
		return
	}
	if is := outb.CheckStream(cs, stream, complete); is != nil {
		r.Violate(fmt.Sprintf("c04:%s:%s:drained-stream-corrupt:%s", c.Cfg.Net, modeTag(c), is.Sig), is.Detail+"\n"+stallInfo, c)
		return
	}
	r.Seen("cells", cell)
	r.Count("bytes_delivered", int64(len(stream)))
	if pol != nil {
		r.Count("shim_calls", pol.Calls)
		r.Count("shim_short_transfers", pol.Short)
		r.Count("shim_eagain_injected", pol.EAGAIN)
		r.Count("kernel_eagain", pol.RealEAGAIN)
	}
	if backlog0 > 0 {
		r.Count("cases_with_backlog_at_read_start", 1)
		r.Max("max_backlog_bytes", backlog0)
		r.Nontrivial(fmt.Sprintf("%d", c.Index))
	} else {
		r.Count("cases_without_backlog(trivial)", 1)
	}
}

func guarded(r *h.Run, c caseT) {
	v := h.Guard(5*time.Minute, func() int64 { return atomic.LoadInt64(&progress) }, func() { runCase(r, c) })
	switch v.Kind {
	case "":
		return
	case "spin":
		r.Violate(fmt.Sprintf("c04:%s:%s:%s:spin-no-progress", c.Cfg.Net, modeTag(c), c.Origin), v.Detail, c)
	case "deadlock":
		r.Violate(fmt.Sprintf("c04:%s:%s:%s:deadlock-no-progress", c.Cfg.Net, modeTag(c), c.Origin), v.Detail, c)
	default:
		r.Inconclusive(fmt.Sprintf("case %d: %s", c.Index, v.Detail))
	}
	r.Inconclusive(fmt.Sprintf("shard stopped after case %d (process state unrecoverable)", c.Index))
	outb.Cleanup()
	r.Finish()
	os.Exit(0)
}

var _ = rand.Int

// dialSubject lets the engine dial a plain listener and runs inCallback inside
// the dial callback. It returns the accepted peer and the dialed connection.
func dialSubject(env *outb.Env, c caseT, inCallback func(*nbio.Conn)) (net.Conn, *nbio.Conn, error) {
	addr := "127.0.0.1:0"
	dir := ""
	if c.Cfg.Net == "unix" {
		d, err := os.MkdirTemp("", "vdial")
		if err != nil {
			return nil, nil, err
		}
		dir = d
		addr = d + "/l.sock"
	}
	ln, err := net.Listen(c.Cfg.Net, addr)
	if err != nil {
		return nil, nil, fmt.Errorf("listen: %v", err)
	}
	defer func() {
		ln.Close()
		if dir != "" {
			os.RemoveAll(dir)
		}
	}()
	type res struct {
		cn  *nbio.Conn
		err error
	}
	dialed := make(chan res, 1)
	accepted := make(chan net.Conn, 1)
	go func() {
		p, err := ln.Accept()
		if err != nil {
			accepted <- nil
			return
		}
		if c.Cfg.RcvBuf > 0 {
			switch v := p.(type) {
			case *net.TCPConn:
				_ = v.SetReadBuffer(c.Cfg.RcvBuf)
			case *net.UnixConn:
				_ = v.SetReadBuffer(c.Cfg.RcvBuf)
			}
		}
		accepted <- p
	}()
	err = env.G.DialAsync(c.Cfg.Net, ln.Addr().String(), func(x *nbio.Conn, err error) {
		if err == nil {
			inCallback(x)
		}
		dialed <- res{x, err}
	})
	if err != nil {
		return nil, nil, fmt.Errorf("DialAsync: %v", err)
	}
	var peer net.Conn
	select {
	case peer = <-accepted:
	case <-time.After(10 * time.Second):
	}
	if peer == nil {
		return nil, nil, fmt.Errorf("the listener accepted nothing")
	}
	select {
	case d := <-dialed:
		if d.err != nil {
			peer.Close()
			return nil, nil, fmt.Errorf("dial callback: %v", d.err)
		}
		return peer, d.cn, nil
	case <-time.After(60 * time.Second):
		peer.Close()
		return nil, nil, fmt.Errorf("dial callback did not return")
	}
}

func main() {
	r := h.Start("C04")
	defer r.Finish()
	defer outb.Cleanup()
	if r.Phase == "shim" {
		outb.InstallShim()
	}
	if r.Replay != "" {
		var c caseT
		if err := r.ReplayCase(&c); err != nil {
			fmt.Println("replay:", err)
			return
		}
		guarded(r, c)
		return
	}
	n := r.N(84, 840)
	if r.Phase == "shim" {
		n = r.N(84, 1680)
	}
	for i := 0; i < n; i++ {
		if !r.Mine(i) {
			continue
		}
		c := genCase(r, r.Phase, i)
		r.Begin(c)
		t0 := time.Now()
		guarded(r, c)
		if d := time.Since(t0); d > 5*time.Second {
			fmt.Printf("slow case %d: %v cfg=%+v\n", c.Index, d, c.Cfg)
		}
		r.Max("max_case_ms", time.Since(t0).Milliseconds())
		if i < 2 {
			r.Sample(c)
		}
	}
	if r.Phase == "shim" && outb.ShimReached == 0 {
		r.Inconclusive("syscall shim was never reached: hook not reached")
	}
}
